#!/bin/bash
# Builds the framework offline from files on disk only.
set -eu
export CARGO_NET_OFFLINE=true
HERE="$(cd "$(dirname "$0")" && pwd)"
mkdir -p "$HERE/out" "$HERE/evidence"
cd "$HERE/harness"
cargo build --release --offline 2>&1 | tail -3
echo "setup done"
