#!/bin/bash
# Builds the framework offline from files on disk only.
set -u
export CARGO_NET_OFFLINE=true
HERE="$(cd "$(dirname "$0")" && pwd)"
mkdir -p "$HERE/out" "$HERE/evidence"
cd "$HERE/harness" || exit 2
cargo build --release --offline 2>&1 | tail -2 || exit 2
# libFuzzer target for C13 (dev profile = what the quick tier uses); failure here is reported by the check itself
(cd "$HERE/harness/fuzz" && RUSTFLAGS="--cfg gdsl_verif" cargo +nightly fuzz build --dev deser 2>&1 | tail -2) || echo "note: fuzz target not built"
echo "setup done"
