#![no_main]
//! C13: byte 0 selects flavour x format, the rest is the document; the
//! oracle (gvlib::deser::check_bytes) panics on a violation.
use libfuzzer_sys::fuzz_target;
use std::sync::Once;
static INIT: Once = Once::new();
fuzz_target!(|data: &[u8]| {
    INIT.call_once(|| gvlib::hook::install_self_deadlock_detector());
    gvlib::hook::install_self_deadlock_detector();
    gvlib::deser::check_bytes(data);
});
