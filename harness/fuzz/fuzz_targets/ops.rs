#![no_main]
//! C01-C03 / C18 / C19 / C20 through bytes: the input is decoded into a
//! history and checked by the same oracles as the proptest drivers.
use libfuzzer_sys::fuzz_target;
fuzz_target!(|data: &[u8]| {
    gvlib::fuzzops::check_bytes(data);
});
