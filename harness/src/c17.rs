//! C17: concurrent operations on sync nodes terminate and serialise.
//!
//! The harness owns the schedule: every node-lock acquisition in the sync
//! flavours is preceded by `verif_hooks::lock_point`; worker threads park
//! there and a scheduler decides who continues. Schedules of a scenario are
//! enumerated depth-first by replaying choice prefixes. The oracle is
//! serialisability against the plain-data model.
use crate::ctx::*;
use crate::flavour::*;
use crate::model::*;
use crate::types::*;
use gdsl::verif_hooks::{self, LockProbe, Mode};
use serde::{Deserialize, Serialize};
use serde_json::{json, Value};
use std::collections::{BTreeMap, BTreeSet};
use std::panic::{catch_unwind, AssertUnwindSafe};
use std::rc::Rc;
use std::sync::atomic::{AtomicU64, Ordering};
use std::sync::{Arc, Mutex};
use std::time::{Duration, Instant};

#[derive(Clone, Copy, Debug, PartialEq, Eq, PartialOrd, Ord, Hash, Serialize, Deserialize)]
pub enum Call {
    Connect(u8, u8, EV),
    TryConnect(u8, u8, EV),
    Disconnect(u8, u8),
    Isolate(u8),
    /// isolate the node, then release its LAST strong handle (the calling thread is its only owner)
    IsolateDrop(u8),
    /// degrees, predicates, is_connected, find
    Query(u8),
    /// full bfs + dfs + preorder from the node
    Traverse(u8),
}
impl Call {
    pub fn mutates(&self) -> bool {
        !matches!(self, Call::Query(_) | Call::Traverse(_))
    }
    pub fn operands(&self) -> Vec<u8> {
        match *self {
            Call::Connect(u, v, _) | Call::TryConnect(u, v, _) | Call::Disconnect(u, v) => vec![u, v],
            Call::Isolate(u) | Call::IsolateDrop(u) | Call::Query(u) | Call::Traverse(u) => vec![u],
        }
    }
    pub fn name(&self) -> &'static str {
        match self {
            Call::Connect(..) => "connect",
            Call::TryConnect(..) => "try_connect",
            Call::Disconnect(..) => "disconnect",
            Call::Isolate(_) => "isolate",
            Call::IsolateDrop(_) => "isolate+drop-last-handle",
            Call::Query(_) => "query",
            Call::Traverse(_) => "traverse",
        }
    }
}

#[derive(Clone, Debug, PartialEq, Eq, Hash, Serialize, Deserialize)]
pub struct Scenario {
    pub n: usize,
    pub init: Vec<(u8, u8, EV)>,
    pub threads: Vec<Vec<Call>>,
}

fn do_call<F: Flavour>(nodes: &[F::Node], c: Call) -> Ret {
    match c {
        Call::Connect(u, v, e) => {
            F::connect(&nodes[u as usize], &nodes[v as usize], e);
            Ret::Unit
        }
        Call::TryConnect(u, v, e) => match F::try_connect(&nodes[u as usize], &nodes[v as usize], e) {
            Ok(()) => Ret::Ok,
            Err(_) => Ret::ErrExists,
        },
        Call::Disconnect(u, v) => match F::disconnect(&nodes[u as usize], v as Key) {
            Ok(e) => Ret::Val(e),
            Err(_) => Ret::ErrNotFound,
        },
        Call::Isolate(u) | Call::IsolateDrop(u) => {
            // (the release part of IsolateDrop is done by run_once, which owns the handles)
            F::isolate(&nodes[u as usize]);
            Ret::Unit
        }
        Call::Query(u) => {
            // two lock points: a degree and a neighbour lookup
            let nd = &nodes[u as usize];
            let k = ((u as usize + 1) % nodes.len()) as Key;
            let _ = (F::out_degree(nd), F::find_out(nd, k).is_some());
            Ret::Unit
        }
        Call::Traverse(u) => {
            // one full breadth-first traversal (a lock point per iterator step)
            let nd = &nodes[u as usize];
            let _ = F::search(nd, &SearchCfg { algo: Algo::Bfs, transposed: false, term: Term::Search, target: Some(250) }, Meth::None);
            Ret::Unit
        }
    }
}

/// read-only accessors, individually addressable (lock-discipline pass, focused stress)
pub fn accessors<F: Flavour>() -> Vec<(&'static str, fn(&[F::Node], usize))> {
    vec![
        ("out_degree/degree", |n, u| { let _ = F::out_degree(&n[u]); }),
        ("in_degree", |n, u| { let _ = F::in_degree(&n[u]); }),
        ("is_orphan", |n, u| { let _ = F::is_orphan(&n[u]); }),
        ("is_root", |n, u| { let _ = F::is_root(&n[u]); }),
        ("is_leaf", |n, u| { let _ = F::is_leaf(&n[u]); }),
        ("sizeof", |n, u| { let _ = F::node_sizeof(&n[u]); }),
        ("is_connected", |n, u| { for k in 0..n.len() { let _ = F::is_connected(&n[u], k as Key); } }),
        ("find_outbound/find_adjacent", |n, u| { for k in 0..n.len() { let _ = F::find_out(&n[u], k as Key); } }),
        ("find_inbound", |n, u| { for k in 0..n.len() { let _ = F::find_in(&n[u], k as Key); } }),
        ("iter_out/iter", |n, u| { let _ = F::edges(&n[u], IterKind::Out).len(); }),
        ("iter_in", |n, u| { let _ = F::edges(&n[u], IterKind::In).len(); }),
        ("for-loop", |n, u| { let _ = F::edges(&n[u], IterKind::IntoIter).len(); }),
        ("bfs", |n, u| { let _ = F::search(&n[u], &SearchCfg { algo: Algo::Bfs, transposed: false, term: Term::Search, target: Some(250) }, Meth::None); }),
        ("dfs", |n, u| { let _ = F::search(&n[u], &SearchCfg { algo: Algo::Dfs, transposed: F::DIRECTED, term: Term::Path, target: Some(250) }, Meth::None); }),
        ("pfs", |n, u| { let _ = F::search(&n[u], &SearchCfg { algo: Algo::PfsMin, transposed: false, term: Term::Cycle, target: None }, Meth::None); }),
        ("preorder", |n, u| { let _ = F::order(&n[u], &OrderCfg { ord: Ordk::Pre, transposed: false, term: OTerm::Nodes }, Meth::None); }),
        ("postorder", |n, u| { let _ = F::order(&n[u], &OrderCfg { ord: Ordk::Post, transposed: F::DIRECTED, term: OTerm::Edges }, Meth::None); }),
    ]
}

/// the wider bundles used by the free-running tier and the lock-discipline pass
fn do_call_wide<F: Flavour>(nodes: &[F::Node], c: Call) -> Ret {
    match c {
        Call::Query(u) => {
            let nd = &nodes[u as usize];
            let _ = (F::out_degree(nd), F::in_degree(nd), F::is_orphan(nd), F::is_root(nd), F::is_leaf(nd), F::node_sizeof(nd));
            for k in 0..nodes.len() as Key {
                let _ = (F::is_connected(nd, k), F::find_out(nd, k).is_some(), F::find_in(nd, k).is_some());
            }
            Ret::Unit
        }
        Call::Traverse(u) => {
            let nd = &nodes[u as usize];
            let _ = F::search(nd, &SearchCfg { algo: Algo::Bfs, transposed: false, term: Term::Search, target: Some(250) }, Meth::None);
            let _ = F::search(nd, &SearchCfg { algo: Algo::Dfs, transposed: F::DIRECTED, term: Term::Path, target: Some(250) }, Meth::None);
            let _ = F::search(nd, &SearchCfg { algo: Algo::PfsMin, transposed: false, term: Term::Cycle, target: None }, Meth::None);
            let _ = F::order(nd, &OrderCfg { ord: Ordk::Pre, transposed: false, term: OTerm::Nodes }, Meth::None);
            let _ = F::order(nd, &OrderCfg { ord: Ordk::Post, transposed: F::DIRECTED, term: OTerm::Edges }, Meth::None);
            let _ = F::edges(nd, IterKind::Out).len() + F::edges(nd, IterKind::In).len();
            Ret::Unit
        }
        other => do_call::<F>(nodes, other),
    }
}

// ------------------------------------------------------------------ model

/// all outcomes of applying `c` to `s` that the contract allows
fn model_apply(directed: bool, s: &State, c: Call) -> Vec<(State, Ret)> {
    let mut out = vec![];
    match c {
        Call::Connect(u, v, e) => {
            let mut t = s.clone();
            t.out[u as usize].push((v as Key, e));
            if directed {
                t.inc[v as usize].push((u as Key, e));
            } else {
                t.out[v as usize].push((u as Key, e));
            }
            out.push((t, Ret::Unit));
        }
        Call::TryConnect(u, v, e) => {
            if s.out[u as usize].iter().any(|x| x.0 == v as Key) {
                out.push((s.clone(), Ret::ErrExists));
            } else {
                let (t, _) = model_apply(directed, s, Call::Connect(u, v, e)).pop().unwrap();
                out.push((t, Ret::Ok));
            }
        }
        Call::Disconnect(u, v) => {
            let idx_src: Vec<usize> = s.out[u as usize].iter().enumerate().filter(|x| x.1 .0 == v as Key).map(|x| x.0).collect();
            if idx_src.is_empty() {
                out.push((s.clone(), Ret::ErrNotFound));
            } else {
                for &i in &idx_src {
                    let val = s.out[u as usize][i].1;
                    if directed {
                        let idx_dst: Vec<usize> = s.inc[v as usize].iter().enumerate().filter(|x| x.1 .0 == u as Key && x.1 .1 == val).map(|x| x.0).collect();
                        for &j in &idx_dst {
                            let mut t = s.clone();
                            t.out[u as usize].remove(i);
                            t.inc[v as usize].remove(j);
                            out.push((t, Ret::Val(val)));
                        }
                    } else {
                        let mut t = s.clone();
                        t.out[u as usize].remove(i);
                        if let Some(j) = t.out[v as usize].iter().position(|x| x.0 == u as Key && x.1 == val) {
                            t.out[v as usize].remove(j);
                            out.push((t, Ret::Val(val)));
                        }
                    }
                }
            }
        }
        Call::Isolate(u) | Call::IsolateDrop(u) => {
            let mut t = s.clone();
            for l in t.out.iter_mut() {
                l.retain(|x| x.0 != u as Key);
            }
            for l in t.inc.iter_mut() {
                l.retain(|x| x.0 != u as Key);
            }
            t.out[u as usize].clear();
            t.inc[u as usize].clear();
            out.push((t, Ret::Unit));
        }
        Call::Query(_) | Call::Traverse(_) => out.push((s.clone(), Ret::Unit)),
    }
    out
}

fn canon_state(directed: bool, s: &State) -> State {
    if directed {
        s.clone()
    } else {
        let mut t = s.clone();
        for l in t.out.iter_mut() {
            l.sort();
        }
        t
    }
}

/// every (final state, per-thread return values) reachable by some
/// sequential order of the calls that respects each thread's own order
pub fn allowed_outcomes(directed: bool, sc: &Scenario) -> BTreeSet<(State, Vec<Vec<Ret>>)> {
    fn rec(directed: bool, s: &State, idx: &mut Vec<usize>, rets: &mut Vec<Vec<Ret>>, threads: &[Vec<Call>], out: &mut BTreeSet<(State, Vec<Vec<Ret>>)>) {
        let mut any = false;
        for t in 0..threads.len() {
            if idx[t] < threads[t].len() {
                any = true;
                for (s2, r) in model_apply(directed, s, threads[t][idx[t]]) {
                    idx[t] += 1;
                    rets[t].push(r);
                    rec(directed, &s2, idx, rets, threads, out);
                    idx[t] -= 1;
                    rets[t].pop();
                }
            }
        }
        if !any {
            out.insert((canon_state(directed, s), rets.clone()));
        }
    }
    let mut s = State::empty(sc.n);
    for &(u, v, e) in &sc.init {
        s = model_apply(directed, &s, Call::Connect(u, v, e)).pop().unwrap().0;
    }
    let mut out = BTreeSet::new();
    rec(directed, &s, &mut vec![0; sc.threads.len()], &mut vec![vec![]; sc.threads.len()], &sc.threads, &mut out);
    out
}

// ------------------------------------------------------------------ scheduler

#[derive(Clone, Copy)]
struct ProbePtr(*const (dyn LockProbe + 'static));
unsafe impl Send for ProbePtr {}

#[derive(Clone)]
enum St {
    Start,
    AtLock(ProbePtr, Mode),
    Running,
    Done,
}

struct SState {
    st: Vec<St>,
    active: Option<usize>,
    choices: Vec<usize>,
    /// (choice taken, number of enabled workers) per scheduling decision
    trace: Vec<(usize, usize)>,
    abort: bool,
    deadlock: bool,
    stuck: bool,
    /// PCT-style random scheduling instead of prefix replay: xorshift state
    random: Option<u64>,
    /// pool threads running this execution (unparked individually: no thundering herd)
    threads: Vec<std::thread::Thread>,
    main: Option<std::thread::Thread>,
}
struct Sched {
    m: Mutex<SState>,
}
struct Abort;

impl Sched {
    /// choose the next worker and wake it (or the main thread when nothing is left to run)
    fn pick_next(&self, s: &mut SState) {
        let enabled: Vec<usize> = (0..s.st.len())
            .filter(|&i| match &s.st[i] {
                St::Start => true,
                St::AtLock(p, mode) => unsafe { !(*p.0).would_block(*mode) },
                _ => false,
            })
            .collect();
        if enabled.is_empty() {
            s.active = None;
            if !s.st.iter().all(|x| matches!(x, St::Done)) {
                s.deadlock = true;
                s.abort = true;
                for t in &s.threads {
                    t.unpark();
                }
            }
            if let Some(m) = &s.main {
                m.unpark();
            }
            return;
        }
        let k = s.trace.len();
        let c = if let Some(x) = s.random.as_mut() {
            *x ^= *x << 13;
            *x ^= *x >> 7;
            *x ^= *x << 17;
            (*x % enabled.len() as u64) as usize
        } else if k < s.choices.len() {
            s.choices[k].min(enabled.len() - 1)
        } else {
            0
        };
        s.trace.push((c, enabled.len()));
        s.active = Some(enabled[c]);
        if let Some(t) = s.threads.get(enabled[c]) {
            t.unpark();
        }
    }
    /// block until it is `me`'s turn (or the execution is aborted)
    fn wait_turn(&self, me: usize) {
        loop {
            {
                let mut s = self.m.lock().unwrap();
                if s.abort {
                    drop(s);
                    std::panic::resume_unwind(Box::new(Abort));
                }
                if s.active == Some(me) {
                    s.st[me] = St::Running;
                    return;
                }
            }
            std::thread::park();
        }
    }
    fn park(&self, me: usize, new: St) {
        {
            let mut s = self.m.lock().unwrap();
            s.st[me] = new;
            s.active = None;
            self.pick_next(&mut s);
        }
        self.wait_turn(me);
    }
}

#[derive(Debug, Clone, PartialEq, Eq)]
pub enum Outcome {
    Ok(State, Vec<Vec<Ret>>),
    Deadlock,
    Panic(String),
    Poison,
    /// an un-hooked blocking point or a worker that never came back
    Stuck,
}

type Job = Box<dyn FnOnce() + Send + 'static>;

/// Long-lived worker threads: spawning threads per execution costs an mmap
/// per stack, which serialises all explorers in the kernel.
pub struct Pool {
    tx: Vec<std::sync::mpsc::Sender<Job>>,
    handles: Vec<std::thread::Thread>,
}
impl Pool {
    pub fn new(n: usize) -> Pool {
        let mut tx = vec![];
        let mut handles = vec![];
        for _ in 0..n {
            let (t, r) = std::sync::mpsc::channel::<Job>();
            let h = std::thread::spawn(move || {
                while let Ok(job) = r.recv() {
                    job();
                }
            });
            handles.push(h.thread().clone());
            tx.push(t);
        }
        Pool { tx, handles }
    }
}

pub fn run_once<F: Flavour>(pool: &mut Pool, sc: &Scenario, choices: &[usize], random: Option<u64>) -> (Outcome, Vec<(usize, usize)>)
where
    F::Node: Send + Sync + 'static,
{
    let nodes: Arc<Vec<F::Node>> = Arc::new((0..sc.n).map(|i| F::new_node(i as Key, NVal::plain(i as i32))).collect());
    for &(u, v, e) in &sc.init {
        F::connect(&nodes[u as usize], &nodes[v as usize], e);
    }
    // scenarios with IsolateDrop: every thread owns handles to its own operands only, the dropping thread is
    // the only owner of the node it releases and the main thread keeps the other nodes for the final observation
    let dropped: BTreeSet<u8> = sc.threads.iter().flatten().filter_map(|c| if let Call::IsolateDrop(u) = c { Some(*u) } else { None }).collect();
    let has_drop = !dropped.is_empty();
    let mut own: Vec<Option<(Vec<Option<F::Node>>, Vec<F::Node>)>> = vec![];
    let main_nodes: Vec<Option<F::Node>> = (0..sc.n).map(|i| if dropped.contains(&(i as u8)) { None } else { Some(nodes[i].clone()) }).collect();
    if has_drop {
        for (ti, calls) in sc.threads.iter().enumerate() {
            let ops: BTreeSet<u8> = calls.iter().flat_map(|c| c.operands()).collect();
            for u in &ops {
                if dropped.contains(u) {
                    let droppers = sc.threads.iter().enumerate().filter(|(_, cs)| cs.iter().any(|c| c.operands().contains(u))).count();
                    let last_use = calls.iter().rposition(|c| c.operands().contains(u)).unwrap();
                    assert!(droppers == 1 && matches!(calls[last_use], Call::IsolateDrop(_)), "scenario invalid: node {} released by thread {} is used elsewhere or afterwards", u, ti);
                }
            }
            let mine: Vec<Option<F::Node>> = (0..sc.n).map(|i| if ops.contains(&(i as u8)) { Some(nodes[i].clone()) } else { None }).collect();
            let dummies: Vec<F::Node> = (0..sc.n).map(|i| F::new_node(200 + i as Key, NVal::plain(0))).collect();
            own.push(Some((mine, dummies)));
        }
    }
    let nodes: Arc<Vec<F::Node>> = if has_drop { Arc::new(vec![]) } else { nodes };
    let nt = sc.threads.len();
    while pool.tx.len() < nt {
        let more = Pool::new(1);
        pool.tx.extend(more.tx);
        pool.handles.extend(more.handles);
    }
    let sched = Arc::new(Sched { m: Mutex::new(SState { st: vec![St::Start; nt], active: None, choices: choices.to_vec(), trace: vec![], abort: false, deadlock: false, stuck: false, random, threads: pool.handles[..nt].to_vec(), main: Some(std::thread::current()) }) });
    let results: Arc<Mutex<Vec<Vec<Ret>>>> = Arc::new(Mutex::new(vec![vec![]; nt]));
    let panics: Arc<Mutex<Vec<String>>> = Arc::new(Mutex::new(vec![]));
    for (ti, calls) in sc.threads.iter().enumerate() {
        let (sched, results, panics, nodes) = (sched.clone(), results.clone(), panics.clone(), nodes.clone());
        let calls = calls.clone();
        let mut mine = if has_drop { own[ti].take() } else { None };
        let job: Job = Box::new(move || {
            let s2 = sched.clone();
            verif_hooks::install(Some(Rc::new(move |p: &dyn LockProbe, mode: Mode| {
                let pp: *const (dyn LockProbe + 'static) = unsafe { std::mem::transmute(p as *const dyn LockProbe) };
                s2.park(ti, St::AtLock(ProbePtr(pp), mode));
            })));
            let r = catch_unwind(AssertUnwindSafe(|| {
                sched.wait_turn(ti);
                for c in calls {
                    let r = match &mut mine {
                        None => do_call::<F>(&nodes, c),
                        Some((mine, dummies)) => {
                            let tmp: Vec<F::Node> = mine.iter().enumerate().map(|(i, o)| o.clone().unwrap_or_else(|| dummies[i].clone())).collect();
                            if let Call::IsolateDrop(u) = c {
                                mine[u as usize] = None;
                            }
                            // for IsolateDrop `tmp` now holds the last strong handle: isolate, then release it
                            let r = do_call::<F>(&tmp, c);
                            drop(tmp);
                            r
                        }
                    };
                    results.lock().unwrap()[ti].push(r);
                }
            }));
            drop(mine);
            verif_hooks::install(None);
            if let Err(e) = r {
                if e.downcast_ref::<Abort>().is_none() {
                    panics.lock().unwrap().push(panic_msg(e));
                }
            }
            drop(nodes);
            let mut s = sched.m.lock().unwrap();
            s.st[ti] = St::Done;
            s.active = None;
            if !s.abort {
                sched.pick_next(&mut s);
            } else if s.st.iter().all(|x| matches!(x, St::Done)) {
                if let Some(m) = &s.main {
                    m.unpark();
                }
            }
        });
        pool.tx[ti].send(job).expect("pool thread alive");
    }
    {
        let mut s = sched.m.lock().unwrap();
        sched.pick_next(&mut s);
    }
    // wait until every worker is done; a worker blocking at an un-hooked point
    // never parks nor finishes: give up on this pool after a grace period
    let t0 = Instant::now();
    loop {
        {
            let mut s = sched.m.lock().unwrap();
            if s.st.iter().all(|x| matches!(x, St::Done)) {
                break;
            }
            if t0.elapsed() > Duration::from_secs(20) && !s.stuck {
                s.abort = true;
                s.stuck = true;
                for t in &s.threads {
                    t.unpark();
                }
            }
            if t0.elapsed() > Duration::from_secs(25) {
                break;
            }
        }
        std::thread::park_timeout(Duration::from_millis(200));
    }
    let s = sched.m.lock().unwrap();
    let trace = s.trace.clone();
    if s.stuck {
        // the blocked threads cannot be reused
        drop(s);
        *pool = Pool::new(0);
        return (Outcome::Stuck, trace);
    }
    if s.deadlock {
        return (Outcome::Deadlock, trace);
    }
    let p = panics.lock().unwrap();
    if !p.is_empty() {
        return (Outcome::Panic(p.join(" | ")), trace);
    }
    let obs = catch_unwind(AssertUnwindSafe(|| State { out: main_nodes.iter().map(|x| x.as_ref().map(|x| F::out_list(x)).unwrap_or_default()).collect(), inc: main_nodes.iter().map(|x| x.as_ref().map(|x| F::in_list(x)).unwrap_or_default()).collect() }));
    match obs {
        Err(_) => (Outcome::Poison, trace),
        Ok(m) => {
            let r = results.lock().unwrap().clone();
            (Outcome::Ok(m, r), trace)
        }
    }
}

fn panic_kind(msg: &str) -> &'static str {
    if msg.contains("PoisonError") || msg.contains("poisoned") || msg.contains("EdgeNotFound") {
        // the unwrap of a peer removal that found nothing, and whatever then trips over the poisoned lock
        "panic.edge-not-found-unwrap-or-poisoned-lock"
    } else if msg.contains("Option::unwrap") || msg.contains("on a `None` value") {
        "panic.unwrap-none"
    } else {
        "panic.other"
    }
}

/// classify one execution; None = fine
fn classify(directed: bool, allowed: &BTreeSet<(State, Vec<Vec<Ret>>)>, o: &Outcome) -> Option<(&'static str, String)> {
    match o {
        Outcome::Ok(m, r) => {
            if allowed.contains(&(canon_state(directed, m), r.clone())) {
                return None;
            }
            let inv = if directed { d_inv(m) } else { u_inv(m) };
            match inv {
                Err(f) => Some(("quiescent.mirror-or-symmetry-broken", format!("{}: {}", f.clause, f.detail))),
                Ok(()) => Some(("quiescent.not-serialisable", format!("final state {:?} with return values {:?} is not the outcome of any sequential order", m, r))),
            }
        }
        Outcome::Deadlock => Some(("deadlock", "every unfinished thread waits for a node lock held by another one".into())),
        Outcome::Stuck => Some(("stuck", "a thread blocked at a point without lock_point".into())),
        Outcome::Panic(s) => Some((panic_kind(s), s.clone())),
        Outcome::Poison => Some(("quiescent.poisoned-lock", "a node lock is poisoned at quiescence".into())),
    }
}

/// canonical description of a scenario's calls: nodes renamed by first
/// occurrence, thread order normalised (smallest rendering wins)
pub fn canon_calls(threads: &[Vec<Call>]) -> String {
    let render = |order: &[usize]| -> String {
        let mut map: Vec<u8> = vec![];
        let mut ren = |n: u8| -> usize {
            if let Some(i) = map.iter().position(|m| *m == n) {
                i
            } else {
                map.push(n);
                map.len() - 1
            }
        };
        let mut parts = vec![];
        for &t in order {
            let calls: Vec<String> = threads[t].iter().map(|c| format!("{}({})", c.name(), c.operands().iter().map(|n| format!("n{}", ren(*n))).collect::<Vec<_>>().join(","))).collect();
            parts.push(calls.join("; "));
        }
        parts.join(" || ")
    };
    // all thread orders (<= 3 threads in enumerated scenarios)
    let nt = threads.len();
    let mut best: Option<String> = None;
    let mut perm: Vec<usize> = (0..nt).collect();
    let mut c = vec![0usize; nt];
    let mut consider = |p: &Vec<usize>| {
        let s = render(p);
        if best.as_ref().map_or(true, |b| s < *b) {
            best = Some(s);
        }
    };
    consider(&perm);
    let mut i = 0;
    while i < nt {
        if c[i] < i {
            if i % 2 == 0 {
                perm.swap(0, i);
            } else {
                perm.swap(c[i], i);
            }
            consider(&perm);
            c[i] += 1;
            i = 0;
        } else {
            c[i] = 0;
            i += 1;
        }
    }
    best.unwrap_or_default()
}

pub fn signature(flavour: &str, sc: &Scenario, clause: &str) -> String {
    format!("{} | {} | {}", flavour, canon_calls(&sc.threads), clause)
}

/// explore all schedules of a scenario (DFS over choice prefixes)
pub fn explore<F: Flavour>(pool: &mut Pool, sc: &Scenario, max_exec: usize, st: &mut Stats) -> (usize, bool)
where
    F::Node: Send + Sync + 'static,
{
    let allowed = allowed_outcomes(F::DIRECTED, sc);
    let mut choices: Vec<usize> = vec![];
    let mut execs = 0usize;
    let mut complete = true;
    loop {
        let (o, trace) = run_once::<F>(pool, sc, &choices, None);
        execs += 1;
        st.eval();
        if let Some((clause, detail)) = classify(F::DIRECTED, &allowed, &o) {
            st.report(Finding {
                property: "C17".into(),
                flavour: F::NAME.into(),
                clause: clause.into(),
                signature: signature(F::NAME, sc, clause),
                case: json!({"kind": "schedule", "flavour": F::NAME, "scenario": sc, "choices": trace.iter().map(|x| x.0).collect::<Vec<_>>()}),
                detail,
            });
        }
        let mut k = trace.len();
        let mut next = None;
        while k > 0 {
            k -= 1;
            if trace[k].0 + 1 < trace[k].1 {
                next = Some(k);
                break;
            }
        }
        match next {
            Some(k) => {
                choices = trace[..k].iter().map(|x| x.0).collect();
                choices.push(trace[k].0 + 1);
            }
            None => break,
        }
        if execs >= max_exec {
            complete = false;
            break;
        }
    }
    (execs, complete)
}

pub fn explore_random<F: Flavour>(pool: &mut Pool, sc: &Scenario, runs: usize, seed: u64, st: &mut Stats)
where
    F::Node: Send + Sync + 'static,
{
    let allowed = allowed_outcomes(F::DIRECTED, sc);
    for r in 0..runs {
        let (o, trace) = run_once::<F>(pool, sc, &[], Some((seed ^ (r as u64).wrapping_mul(0x9E3779B97F4A7C15)) | 1));
        st.eval();
        if let Some((clause, detail)) = classify(F::DIRECTED, &allowed, &o) {
            st.report(Finding {
                property: "C17".into(),
                flavour: F::NAME.into(),
                clause: clause.into(),
                signature: signature(F::NAME, sc, clause),
                case: json!({"kind": "schedule", "flavour": F::NAME, "scenario": sc, "choices": trace.iter().map(|x| x.0).collect::<Vec<_>>()}),
                detail,
            });
        }
    }
}

// ------------------------------------------------------------------ scenario spaces

pub fn call_shapes(nn: u8) -> Vec<Call> {
    let mut v = vec![];
    for u in 0..nn {
        for w in 0..nn {
            v.push(Call::Connect(u, w, 0));
            v.push(Call::TryConnect(u, w, 0));
            v.push(Call::Disconnect(u, w));
        }
        v.push(Call::Isolate(u));
        v.push(Call::Query(u));
        v.push(Call::Traverse(u));
    }
    v
}

pub fn inits() -> Vec<Vec<(u8, u8, EV)>> {
    vec![
        vec![],
        vec![(0, 1, 1)],
        vec![(0, 1, 1), (1, 0, 2)],
        vec![(0, 0, 1)],
        vec![(0, 1, 1), (0, 1, 2)],
        vec![(0, 2, 3), (0, 1, 2), (0, 0, 4)],
        vec![(1, 0, 1), (2, 0, 2), (0, 2, 5)],
        vec![(0, 1, 1), (1, 2, 2), (2, 0, 3)],
    ]
}

fn with_value(c: Call, val: EV) -> Call {
    match c {
        Call::Connect(u, v, _) => Call::Connect(u, v, val),
        Call::TryConnect(u, v, _) => Call::TryConnect(u, v, val),
        x => x,
    }
}

fn share_node(a: &Call, b: &Call) -> bool {
    a.operands().iter().any(|x| b.operands().contains(x))
}

/// nodes whose lists a call may touch (isolate also edits every neighbour's list)
fn touched(sc: &Scenario, thread: usize, c: &Call) -> BTreeSet<u8> {
    let mut t: BTreeSet<u8> = c.operands().into_iter().collect();
    if let Call::Isolate(u) | Call::IsolateDrop(u) = c {
        for &(a, b, _) in &sc.init {
            if a == *u {
                t.insert(b);
            }
            if b == *u {
                t.insert(a);
            }
        }
        for d in &sc.threads[thread] {
            if let Call::Connect(a, b, _) | Call::TryConnect(a, b, _) = d {
                if a == u {
                    t.insert(*b);
                }
                if b == u {
                    t.insert(*a);
                }
            }
        }
    }
    t
}

/// no two mutating calls of different threads touch a common node (then D15 — the non-atomic
/// two-endpoint update — cannot be what makes the scenario fail)
pub fn mutators_disjoint(sc: &Scenario) -> bool {
    for i in 0..sc.threads.len() {
        for j in i + 1..sc.threads.len() {
            for a in sc.threads[i].iter().filter(|c| c.mutates()) {
                for b in sc.threads[j].iter().filter(|c| c.mutates()) {
                    if !touched(sc, i, a).is_disjoint(&touched(sc, j, b)) {
                        return false;
                    }
                }
            }
        }
    }
    true
}

/// canonical form of a whole scenario (init + calls) for de-duplication up to node renaming
fn scenario_key(sc: &Scenario) -> String {
    // try all renamings of 3 nodes, keep the smallest rendering
    let perms: [[u8; 3]; 6] = [[0, 1, 2], [0, 2, 1], [1, 0, 2], [1, 2, 0], [2, 0, 1], [2, 1, 0]];
    let mut best: Option<String> = None;
    for p in perms {
        let r = |n: u8| p[n as usize % 3];
        let mut init: Vec<(u8, u8, EV)> = sc.init.iter().map(|&(u, v, e)| (r(u), r(v), e)).collect();
        // per-list order matters: keep sequence, but rendering is of the renamed sequence
        let mut th: Vec<String> = sc.threads.iter().map(|t| t.iter().map(|c| format!("{}{:?}", c.name(), c.operands().iter().map(|n| r(*n)).collect::<Vec<_>>())).collect::<Vec<_>>().join(";")).collect();
        th.sort();
        let s = format!("{:?}|{:?}", init, th);
        init.clear();
        if best.as_ref().map_or(true, |b| s < *b) {
            best = Some(s);
        }
    }
    best.unwrap()
}

// ------------------------------------------------------------------ free-running tier

/// Runs the free-running tier in a child process (a stalled run can never be
/// joined, so the child is killed): `gv C17-free <flavour> <reader idx> <iters>`.
pub fn free_child(flavour: &str, idx: usize, iters: u64, focus: Option<&str>) -> i32 {
    crate::flavour::REPEAT_CHECK.store(false, Ordering::Relaxed);
    let shapes = free_shapes();
    let (reader, writer) = shapes[idx % shapes.len()];
    let r = if flavour == SDi::NAME { free_run_noscope::<SDi>(reader, writer, iters, focus) } else { free_run_noscope::<SUn>(reader, writer, iters, focus) };
    match r {
        Ok(n) => {
            println!("FREE-OK {}", n);
            0
        }
        Err(e) => {
            println!("FREE-FAIL {}", e);
            if e == "stall" {
                3
            } else {
                4
            }
        }
    }
}

/// like free_run but with detached threads so that the process can exit while they are blocked
fn free_run_noscope<F: Flavour>(reader: Call, writer: (Call, Call), iters: u64, focus: Option<&str>) -> Result<u64, String>
where
    F::Node: Send + Sync + 'static,
{
    let focus_fn: Option<fn(&[F::Node], usize)> = focus.and_then(|name| accessors::<F>().into_iter().find(|a| a.0 == name).map(|a| a.1));
    let nodes: Arc<Vec<F::Node>> = Arc::new((0..3).map(|i| F::new_node(i as Key, NVal::plain(i as i32))).collect());
    F::connect(&nodes[1], &nodes[2], 9);
    let progress = Arc::new([AtomicU64::new(0), AtomicU64::new(0)]);
    let failed: Arc<Mutex<Option<String>>> = Arc::new(Mutex::new(None));
    let done = Arc::new(AtomicU64::new(0));
    for who in 0..2 {
        let (nodes, progress, failed, done) = (nodes.clone(), progress.clone(), failed.clone(), done.clone());
        std::thread::spawn(move || {
            let r = catch_unwind(AssertUnwindSafe(|| {
                for _ in 0..iters {
                    if who == 0 {
                        match focus_fn {
                            Some(f) => f(&nodes, reader.operands()[0] as usize),
                            None => {
                                do_call_wide::<F>(&nodes, reader);
                            }
                        }
                    } else if let Call::IsolateDrop(_) = writer.1 {
                        // six fresh nodes linked to node 0 (operand 9 = "the fresh node"), then each is isolated and
                        // its only handle released while the reader may be walking node 0's list
                        let fresh: Vec<F::Node> = (0..6).map(|i| F::new_node(50 + i as Key, NVal::plain(0))).collect();
                        for c in &fresh {
                            match writer.0 {
                                Call::Connect(9, _, e) => F::connect(c, &nodes[0], e),
                                Call::Connect(_, _, e) => F::connect(&nodes[0], c, e),
                                _ => {}
                            }
                        }
                        for c in fresh {
                            F::isolate(&c);
                            drop(c);
                        }
                    } else {
                        do_call::<F>(&nodes, writer.0);
                        do_call::<F>(&nodes, writer.1);
                    }
                    progress[who].fetch_add(1, Ordering::Relaxed);
                }
            }));
            if let Err(e) = r {
                *failed.lock().unwrap() = Some(panic_msg(e));
            }
            done.fetch_add(1, Ordering::SeqCst);
        });
    }
    let mut last = (0u64, 0u64);
    let mut last_change = Instant::now();
    while done.load(Ordering::SeqCst) < 2 {
        std::thread::sleep(Duration::from_millis(2));
        let now = (progress[0].load(Ordering::Relaxed), progress[1].load(Ordering::Relaxed));
        if now != last {
            last = now;
            last_change = Instant::now();
        } else if last_change.elapsed() > Duration::from_secs(6) {
            return Err("stall".into());
        }
        if failed.lock().unwrap().is_some() {
            break;
        }
    }
    if let Some(p) = failed.lock().unwrap().clone() {
        return Err(format!("panic: {}", p));
    }
    Ok(progress[0].load(Ordering::Relaxed) + progress[1].load(Ordering::Relaxed))
}

/// (query/traversal call, mutator pair on the same node) combinations of the free-running tier
pub fn free_shapes() -> Vec<(Call, (Call, Call))> {
    let mut v = vec![];
    for reader in [Call::Query(0), Call::Traverse(0), Call::Query(1), Call::Traverse(1)] {
        // writers toggling an edge at node 0 in both orientations, and a self-loop
        v.push((reader, (Call::Connect(0, 1, 5), Call::Disconnect(0, 1))));
        v.push((reader, (Call::Connect(1, 0, 5), Call::Disconnect(1, 0))));
        v.push((reader, (Call::Connect(0, 0, 5), Call::Disconnect(0, 0))));
        v.push((reader, (Call::Connect(0, 2, 5), Call::Isolate(0))));
    }
    for reader in [Call::Query(0), Call::Traverse(0)] {
        // fresh neighbours of node 0 that are isolated and then released (last handle dropped) by the writer
        v.push((reader, (Call::Connect(0, 9, 5), Call::IsolateDrop(9))));
        v.push((reader, (Call::Connect(9, 0, 5), Call::IsolateDrop(9))));
    }
    v
}

// ------------------------------------------------------------------ single-thread lock discipline

/// Runs every call shape single-threaded with a probe at each lock point:
/// a Read acquisition while the lock is already held by this (only) thread is
/// a re-entrant read, which std::sync::RwLock may dead-lock when a writer is
/// queued in between. Returns the call shapes that do it.
pub fn reentrant_reads<F: Flavour>() -> Vec<(&'static str, String)> {
    use std::cell::RefCell;
    thread_local! { static HITS: RefCell<Vec<String>> = const { RefCell::new(Vec::new()) }; }
    let mut found: Vec<(&'static str, String)> = vec![];
    let mut probe = |name: &'static str, f: &dyn Fn(&[F::Node])| {
        for init in inits() {
            let nodes: Vec<F::Node> = (0..3).map(|i| F::new_node(i as Key, NVal::plain(i as i32))).collect();
            for &(u, v, e) in &init {
                F::connect(&nodes[u as usize], &nodes[v as usize], e);
            }
            HITS.with(|h| h.borrow_mut().clear());
            verif_hooks::install(Some(Rc::new(|p: &dyn LockProbe, mode: Mode| {
                // nobody else exists: any holder is this thread
                if p.would_block(mode) {
                    HITS.with(|h| h.borrow_mut().push("SELF-DEADLOCK: the lock is requested while this thread holds a conflicting guard of it".into()));
                    panic!("{}", crate::hook::SELF_DEADLOCK);
                }
                if mode == Mode::Read && p.would_block(Mode::Write) {
                    HITS.with(|h| h.borrow_mut().push("read lock requested while this thread already holds a guard of the same lock".into()));
                }
            })));
            let _ = catch_unwind(AssertUnwindSafe(|| f(&nodes)));
            verif_hooks::install(None);
            let hits = HITS.with(|h| h.borrow().clone());
            if let Some(h) = hits.first() {
                if !found.iter().any(|x| x.0 == name) {
                    found.push((name, h.clone()));
                }
            }
        }
    };
    for (name, f) in accessors::<F>() {
        for u in 0..3usize {
            probe(name, &|n| f(n, u));
        }
    }
    for c in call_shapes(3).into_iter().filter(|c| c.mutates()) {
        probe(c.name(), &|n| {
            do_call::<F>(n, c);
        });
    }
    found
}

pub fn replay(v: &Value, st: &mut Stats) -> Result<(), String> {
    crate::flavour::REPEAT_CHECK.store(false, Ordering::Relaxed);
    let sc: Scenario = serde_json::from_value(v["scenario"].clone()).map_err(|e| e.to_string())?;
    if sc.n == 0 || sc.n > 8 || sc.threads.iter().flatten().any(|c| c.operands().iter().any(|o| *o as usize >= sc.n)) || sc.init.iter().any(|e| e.0 as usize >= sc.n || e.1 as usize >= sc.n) {
        return Err("malformed scenario".into());
    }
    let choices: Vec<usize> = serde_json::from_value(v["choices"].clone()).unwrap_or_default();
    let fl = v["flavour"].as_str().unwrap_or(SDi::NAME);
    let run = |st: &mut Stats, directed: bool, o: Outcome| {
        let allowed = allowed_outcomes(directed, &sc);
        st.eval();
        if let Some((clause, detail)) = classify(directed, &allowed, &o) {
            st.report(Finding { property: "C17".into(), flavour: fl.into(), clause: clause.into(), signature: signature(fl, &sc, clause), case: json!({"kind": "schedule", "flavour": fl, "scenario": sc, "choices": choices}), detail });
        }
    };
    if fl == SDi::NAME {
        let (o, _) = run_once::<SDi>(&mut Pool::new(sc.threads.len()), &sc, &choices, None);
        run(st, true, o);
    } else {
        let (o, _) = run_once::<SUn>(&mut Pool::new(sc.threads.len()), &sc, &choices, None);
        run(st, false, o);
    }
    st.sample(|| json!({"replayed": {"scenario": sc, "choices": choices}}));
    Ok(())
}

/// source scan: node-lock acquisitions in the sync flavours without a lock_point line in the 8 lines before
pub fn unhooked_sites() -> (usize, Vec<String>) {
    let mut total = 0;
    let mut missing = vec![];
    for m in ["sync_digraph", "sync_ungraph"] {
        let mut stack = vec![std::path::PathBuf::from("/repo/src").join(m)];
        while let Some(d) = stack.pop() {
            let Ok(rd) = std::fs::read_dir(&d) else { continue };
            for e in rd.filter_map(|e| e.ok()) {
                let p = e.path();
                if p.is_dir() {
                    stack.push(p);
                } else if p.extension().map_or(false, |x| x == "rs") {
                    let text = std::fs::read_to_string(&p).unwrap_or_default();
                    let lines: Vec<&str> = text.lines().collect();
                    for (i, l) in lines.iter().enumerate() {
                        let t = l.trim();
                        if t.starts_with("//") {
                            continue;
                        }
                        if [".read()", ".write()", ".try_read()", ".try_write()"].iter().any(|k| t.contains(k)) {
                            total += 1;
                            if !lines[i.saturating_sub(8)..i].iter().any(|b| b.contains("lock_point")) {
                                missing.push(format!("{}:{}", p.display(), i + 1));
                            }
                        }
                    }
                }
            }
        }
    }
    (total, missing)
}

pub fn run(ctx: &mut Ctx) {
    crate::flavour::REPEAT_CHECK.store(false, Ordering::Relaxed);
    let (sites, unhooked) = unhooked_sites();
    ctx.stats.extra.insert("lock_sites_in_source".into(), json!(sites));
    ctx.stats.extra.insert("lock_sites_without_lock_point".into(), json!(unhooked));
    if !unhooked.is_empty() {
        println!("note: {} node-lock acquisition(s) without a lock_point line ({}): the scheduler cannot interleave there; a blocking one shows up as 'stuck', the real-thread tier still applies", unhooked.len(), unhooked.join(", "));
    }
    ctx.rule = "cases = (scenario, schedule): scenario = 3 shared sync nodes, an initial edge set, 2-3 threads x 1-2 calls out of connect / try_connect / disconnect (every operand pair incl. self) / isolate / query bundle / traversal bundle; schedule = the order in which threads pass the lock points before each node-lock acquisition, owned by the harness. (a) 2 threads x 1 call: every pair of call shapes that share a node (thorough: all pairs) x 8 initial edge sets, de-duplicated up to node renaming, ALL schedules of each; (b) thorough: 2x2 and 3x1 scenarios free of the listed known-bad call pairs, all schedules up to a per-scenario cap, plus seeded random schedules of larger scenarios; (c) single-threaded lock-discipline pass (re-entrant read detector) and a free-running real-thread tier: every query/traversal bundle against an edge-toggling writer on the same node, progress-counter based stall detection in a child process. Oracle per execution: every call returns (no deadlock = no state in which all unfinished threads wait for held locks), no panic, no poisoned lock, and (final adjacency state, return values of the mutating calls) is the outcome of some sequential order respecting thread order (allowed-successor semantics for disconnect on parallel edges; undirected lists compared as multisets); mirror/symmetry at quiescence. Non-trivial = two calls on different threads share a node and at least one mutates; distinct = hash of (flavour, scenario, schedule).".into();
    ctx.assumptions = vec![
        "the scheduler controls lock-acquisition order only (the adjacency lists are the only shared mutable state and are only touched under their lock); weak-memory effects and the writer-preference queue of std::sync::RwLock are not modelled by the scheduler — the latter is covered by the re-entrant-read detector plus the free-running tier".into(),
        "lock_point precedes every acquisition (32 sites; tools/hook_coverage.py checks the source); an un-hooked blocking acquisition shows up as 'stuck'".into(),
    ];
    let tier = ctx.tier;
    let seed = ctx.seed;
    let wd = ctx.watchdog.clone();
    wd.limit_s.store(300, Ordering::Relaxed);
    let known_pairs: BTreeSet<(String, String)> = ctx.known.iter().filter(|k| k.status == "known").filter_map(|k| {
        let parts: Vec<&str> = k.signature.split(" | ").collect();
        if parts.len() == 3 { Some((parts[0].to_string(), parts[1].to_string())) } else { None }
    }).collect();

    // ---- (a) 2 threads x 1 call, exhaustive schedules
    let shapes = call_shapes(3);
    let mut scenarios: Vec<Scenario> = vec![];
    let mut seen = BTreeSet::new();
    for init in inits() {
        for (i, a) in shapes.iter().enumerate() {
            for b in shapes.iter().skip(i) {
                let sc = Scenario { n: 3, init: init.clone(), threads: vec![vec![with_value(*a, 10)], vec![with_value(*b, 20)]] };
                if seen.insert(scenario_key(&sc)) {
                    scenarios.push(sc);
                }
            }
        }
    }
    let workers = 16usize;
    let nsc = scenarios.len();
    let cap_2x1 = std::env::var("VERIF_C17_CAP").ok().and_then(|s| s.parse().ok()).unwrap_or(tier.pick(4000usize, 60_000usize));
    let part_a = parallel(workers, |w| {
        let mut st = Stats::new();
        let mut pool = Pool::new(3);
        for (i, sc) in scenarios.iter().enumerate() {
            if i % workers != w {
                continue;
            }
            wd.tick();
            macro_rules! go {
                ($F:ty) => {{
                    let (execs, complete) = explore::<$F>(&mut pool, sc, cap_2x1, &mut st);
                    st.class_n(&format!("executions.2x1.{}", <$F>::NAME), execs as u64);
                    st.class(&format!("scenarios.2x1.{}", <$F>::NAME));
                    if !complete {
                        st.class("scenarios.schedule-cap-hit");
                    }
                    if sc.threads[0].iter().chain(sc.threads[1].iter()).any(|c| c.mutates()) && share_node(&sc.threads[0][0], &sc.threads[1][0]) {
                        st.nontrivial(&(<$F>::NAME, sc));
                    }
                    if i % 97 == 3 {
                        st.sample_kind(<$F>::NAME, 2, || json!({"scenario": sc, "schedules_explored": execs, "all_schedules": complete}));
                    }
                }};
            }
            go!(SDi);
            go!(SUn);
        }
        st
    });
    let cap_hit = part_a.classes.contains_key("scenarios.schedule-cap-hit");
    ctx.stats.merge(part_a);
    ctx.exhaustive = Some(!cap_hit);
    ctx.stats.extra.insert("scenarios_2x1".into(), json!(nsc));

    // ---- (b) deeper scenarios, known-bad pairs excluded by construction
    let mut excluded = 0u64;
    let mut deeper: Vec<Scenario> = vec![];
    if tier == Tier::Thorough {
        let small: Vec<Call> = call_shapes(2).into_iter().chain([Call::Connect(0, 2, 0), Call::Disconnect(0, 2), Call::Isolate(2), Call::Connect(2, 2, 0), Call::Disconnect(2, 2), Call::Query(2), Call::Traverse(2)]).collect();
        let bad = |fl: &str, a: &Call, b: &Call| known_pairs.contains(&(fl.to_string(), canon_calls(&[vec![*a], vec![*b]])));
        let mut seen = BTreeSet::new();
        for init in inits().into_iter().take(6) {
            // 2 x 2
            for a1 in &small {
                for a2 in &small {
                    for b1 in &small {
                        for b2 in &small {
                            let sc = Scenario { n: 3, init: init.clone(), threads: vec![vec![with_value(*a1, 10), with_value(*a2, 11)], vec![with_value(*b1, 20), with_value(*b2, 21)]] };
                            let cross = [(a1, b1), (a1, b2), (a2, b1), (a2, b2)];
                            if cross.iter().any(|(x, y)| bad(SDi::NAME, x, y) || bad(SUn::NAME, x, y)) || !mutators_disjoint(&sc) {
                                excluded += 1;
                                continue;
                            }
                            if !cross.iter().any(|(x, y)| share_node(x, y) && (x.mutates() || y.mutates())) {
                                continue;
                            }
                            if seen.insert(scenario_key(&sc)) {
                                deeper.push(sc);
                            }
                        }
                    }
                }
            }
            // 3 x 1
            for a in &small {
                for b in &small {
                    for c in &small {
                        let sc = Scenario { n: 3, init: init.clone(), threads: vec![vec![with_value(*a, 10)], vec![with_value(*b, 20)], vec![with_value(*c, 30)]] };
                        let cross = [(a, b), (a, c), (b, c)];
                        if cross.iter().any(|(x, y)| bad(SDi::NAME, x, y) || bad(SUn::NAME, x, y)) || !mutators_disjoint(&sc) {
                            excluded += 1;
                            continue;
                        }
                        if !cross.iter().any(|(x, y)| share_node(x, y) && (x.mutates() || y.mutates())) {
                            continue;
                        }
                        if seen.insert(scenario_key(&sc)) {
                            deeper.push(sc);
                        }
                    }
                }
            }
        }
        let nd = deeper.len();
        let part_b = parallel(workers, |w| {
            let mut st = Stats::new();
            let mut pool = Pool::new(3);
            for (i, sc) in deeper.iter().enumerate() {
                if i % workers != w {
                    continue;
                }
                wd.tick();
                macro_rules! go {
                    ($F:ty) => {{
                        let (execs, complete) = explore::<$F>(&mut pool, sc, 3000, &mut st);
                        st.class_n(&format!("executions.deeper.{}", <$F>::NAME), execs as u64);
                        if !complete {
                            st.class("scenarios.deeper.schedule-cap-hit");
                            explore_random::<$F>(&mut pool, sc, 300, seed ^ i as u64, &mut st);
                        }
                        st.nontrivial(&(<$F>::NAME, sc));
                        if i % 997 == 5 {
                            st.sample_kind("deeper", 2, || json!({"scenario": sc, "schedules_explored": execs, "all_schedules": complete}));
                        }
                    }};
                }
                go!(SDi);
                go!(SUn);
            }
            st
        });
        ctx.stats.merge(part_b);
        ctx.stats.extra.insert("scenarios_deeper".into(), json!(nd));
        ctx.stats.extra.insert("scenarios_excluded_because_mutating_calls_of_different_threads_touch_a_common_node(D15)".into(), json!(excluded));
    }

    // ---- (b2) one mutator thread against reader threads on 4 nodes: must always serialise
    {
        use proptest::prelude::*;
        let call = |mutating: bool| -> BoxedStrategy<Call> {
            if mutating {
                prop_oneof![
                    3 => (0u8..4, 0u8..4, 40u32..44).prop_map(|(u, v, e)| Call::Connect(u, v, e)),
                    2 => (0u8..4, 0u8..4, 44u32..48).prop_map(|(u, v, e)| Call::TryConnect(u, v, e)),
                    3 => (0u8..4, 0u8..4).prop_map(|(u, v)| Call::Disconnect(u, v)),
                    2 => (0u8..4).prop_map(Call::Isolate),
                ]
                .boxed()
            } else {
                prop_oneof![(0u8..4).prop_map(Call::Query), (0u8..4).prop_map(Call::Traverse)].boxed()
            }
        };
        let strat = (proptest::collection::vec((0u8..4, 0u8..4, 1u32..6), 2..=5), proptest::collection::vec(call(true), 2..=3), proptest::collection::vec(call(false), 1..=2), proptest::collection::vec(call(false), 1..=2), proptest::option::of(proptest::collection::vec(call(false), 1..=1)));
        let nsc = tier.pick(160usize, 4000usize);
        let mut runner = proptest::test_runner::TestRunner::new_with_rng(proptest::test_runner::Config::default(), proptest::test_runner::TestRng::from_seed(proptest::test_runner::RngAlgorithm::ChaCha, &crate::pt::seed_bytes(seed, 1700)));
        let scs: Vec<Scenario> = (0..nsc)
            .map(|_| {
                use proptest::strategy::ValueTree;
                let (init, m, r1, r2, r3) = strat.new_tree(&mut runner).unwrap().current();
                let mut threads = vec![m, r1, r2];
                if let Some(r3) = r3 {
                    threads.push(r3);
                }
                Scenario { n: 4, init, threads }
            })
            .collect();
        let part = parallel(workers, |w| {
            let mut st = Stats::new();
            let mut pool = Pool::new(4);
            for (i, sc) in scs.iter().enumerate() {
                if i % workers != w {
                    continue;
                }
                wd.tick();
                macro_rules! go {
                    ($F:ty) => {{
                        let (execs, _complete) = explore::<$F>(&mut pool, sc, 150, &mut st);
                        explore_random::<$F>(&mut pool, sc, 60, seed ^ (i as u64) << 8, &mut st);
                        st.class_n(&format!("executions.one-mutator-vs-readers.{}", <$F>::NAME), execs as u64 + 60);
                        st.nontrivial(&(<$F>::NAME, sc));
                        if i % 41 == 7 {
                            st.sample_kind("one-mutator-vs-readers", 1, || json!({"scenario": sc}));
                        }
                    }};
                }
                go!(SDi);
                go!(SUn);
            }
            st
        });
        ctx.stats.merge(part);
        ctx.stats.extra.insert("scenarios_one_mutator_vs_readers".into(), json!(nsc));
    }

    // ---- (b3) readers against one mutator that isolates nodes and releases their last handle
    {
        let inits3: Vec<Vec<(u8, u8, EV)>> = vec![
            vec![(0, 1, 1), (0, 2, 2), (0, 3, 3)],
            vec![(1, 0, 1), (2, 0, 2), (0, 3, 3)],
            vec![(0, 1, 1), (1, 2, 2), (2, 0, 3), (0, 3, 4)],
            vec![(0, 1, 1), (0, 1, 2), (1, 0, 3), (1, 1, 4)],
        ];
        let mutators: Vec<Vec<Call>> = vec![vec![Call::IsolateDrop(1)], vec![Call::IsolateDrop(1), Call::IsolateDrop(2)], vec![Call::Disconnect(0, 1), Call::IsolateDrop(1)], vec![Call::Connect(1, 3, 7), Call::IsolateDrop(1)], vec![Call::IsolateDrop(2), Call::Isolate(3)]];
        let readers: Vec<Vec<Vec<Call>>> = vec![vec![vec![Call::Traverse(0)]], vec![vec![Call::Query(0), Call::Traverse(0)]], vec![vec![Call::Traverse(0)], vec![Call::Traverse(3)]], vec![vec![Call::Query(0)], vec![Call::Traverse(0)]]];
        let mut scs: Vec<Scenario> = vec![];
        for init in &inits3 {
            for m in &mutators {
                for r in &readers {
                    let mut threads = vec![m.clone()];
                    threads.extend(r.iter().cloned());
                    scs.push(Scenario { n: 4, init: init.clone(), threads });
                }
            }
        }
        let nsc = scs.len();
        let cap = tier.pick(400usize, 20_000usize);
        let part = parallel(workers, |w| {
            let mut st = Stats::new();
            let mut pool = Pool::new(3);
            for (i, sc) in scs.iter().enumerate() {
                if i % workers != w {
                    continue;
                }
                wd.tick();
                macro_rules! go {
                    ($F:ty) => {{
                        let (execs, complete) = explore::<$F>(&mut pool, sc, cap, &mut st);
                        if !complete {
                            explore_random::<$F>(&mut pool, sc, 100, seed ^ (i as u64) << 9, &mut st);
                        }
                        st.class_n(&format!("executions.readers-vs-isolate-and-release.{}", <$F>::NAME), execs as u64);
                        st.nontrivial(&(<$F>::NAME, sc));
                        if i % 17 == 3 {
                            st.sample_kind("readers-vs-isolate-and-release", 1, || json!({"scenario": sc, "schedules_explored": execs, "all_schedules": complete}));
                        }
                    }};
                }
                go!(SDi);
                go!(SUn);
            }
            st
        });
        ctx.stats.merge(part);
        ctx.stats.extra.insert("scenarios_readers_vs_isolate_and_release".into(), json!(nsc));
    }

    // ---- (c1) lock discipline: re-entrant reads, confirmed by the free-running tier
    let exe = std::env::current_exe().ok();
    let run_child = |fl: &str, idx: usize, iters: u64, focus: Option<&str>| -> Option<i32> {
        let exe = exe.as_ref()?;
        let mut args: Vec<String> = vec!["C17-free".into(), fl.into(), idx.to_string(), iters.to_string()];
        if let Some(f) = focus {
            args.push(f.into());
        }
        let mut child = std::process::Command::new(exe).args(&args).stdout(std::process::Stdio::null()).spawn().ok()?;
        let t0 = Instant::now();
        loop {
            match child.try_wait() {
                Ok(Some(s)) => return s.code(),
                Ok(None) => {
                    if t0.elapsed() > Duration::from_secs(60) {
                        let _ = child.kill();
                        return Some(3);
                    }
                    std::thread::sleep(Duration::from_millis(5));
                }
                Err(_) => return None,
            }
        }
    };
    let shapes_free = free_shapes();
    let iters = tier.pick(20_000u64, 400_000u64);
    for fl in [SDi::NAME, SUn::NAME] {
        let re = if fl == SDi::NAME { reentrant_reads::<SDi>() } else { reentrant_reads::<SUn>() };
        let probed = ((accessors::<SDi>().len() * 3 + 30) * inits().len()) as u64;
        ctx.stats.class_n(&format!("lock-discipline.calls-probed.{}", fl), probed);
        ctx.stats.evals_n(probed);
        for (idx, (reader, writer)) in shapes_free.iter().enumerate() {
            wd.tick();
            ctx.stats.eval();
            ctx.stats.class(&format!("free-running.pairs.{}", fl));
            ctx.stats.nontrivial(&(fl, "free", reader, writer));
            let mut stalls = 0;
            let mut code = run_child(fl, idx, iters, None);
            if code == Some(3) {
                // confirm: three out of three fresh attempts
                stalls = 1;
                for _ in 0..2 {
                    code = run_child(fl, idx, iters, None);
                    if code == Some(3) {
                        stalls += 1;
                    }
                }
            }
            let sc = Scenario { n: 3, init: vec![(1, 2, 9)], threads: vec![vec![*reader], vec![writer.0, writer.1]] };
            match (code, stalls) {
                (_, 3) => ctx.stats.report(Finding {
                    property: "C17".into(),
                    flavour: fl.into(),
                    clause: "free-running.deadlock".into(),
                    signature: format!("{} | {} (looping, real threads) | free-running.deadlock", fl, canon_calls(&sc.threads)),
                    case: json!({"kind": "free-running", "flavour": fl, "shape_index": idx, "reader": reader, "writer": [writer.0, writer.1], "iterations": iters}),
                    detail: format!("no progress counter moved for 6 s in 3 of 3 fresh processes while the same calls complete single-threaded; re-entrant read sites seen single-threaded: {:?}", re),
                }),
                (Some(4), _) => ctx.stats.report(Finding {
                    property: "C17".into(),
                    flavour: fl.into(),
                    clause: "free-running.panic".into(),
                    signature: format!("{} | {} (looping, real threads) | free-running.panic", fl, canon_calls(&sc.threads)),
                    case: json!({"kind": "free-running", "flavour": fl, "shape_index": idx, "reader": reader, "writer": [writer.0, writer.1], "iterations": iters}),
                    detail: "a query/traversal running against one mutator panicked".into(),
                }),
                (Some(0), _) => {}
                (c, s) => ctx.inconclusive.push(format!("free-running pair {} #{}: exit {:?}, {} stalls of 3 (not reproducible; not counted as a violation)", fl, idx, c, s)),
            }
        }
        // focused confirmation of every re-entrant read site: that accessor alone against each writer loop
        for (name, what) in &re {
            if what.starts_with("SELF-DEADLOCK") {
                ctx.stats.report(Finding {
                    property: "C17".into(),
                    flavour: fl.into(),
                    clause: "single-thread.self-deadlock".into(),
                    signature: format!("{} | {} (one thread) | single-thread.self-deadlock", fl, name),
                    case: json!({"kind": "lock-discipline", "flavour": fl, "call": name}),
                    detail: format!("`{}` requests a node lock while the same thread still holds a conflicting guard of it: the call never returns", name),
                });
                continue;
            }
            if accessors::<SDi>().iter().all(|a| a.0 != *name) {
                continue;
            }
            let mut confirmed = false;
            'shapes: for (idx, (reader, writer)) in shapes_free.iter().enumerate() {
                wd.tick();
                let mut stalls = 0;
                for _ in 0..3 {
                    if run_child(fl, idx, iters * 20, Some(name)) == Some(3) {
                        stalls += 1;
                    } else {
                        break;
                    }
                }
                if stalls == 3 {
                    confirmed = true;
                    let _sc = Scenario { n: 3, init: vec![(1, 2, 9)], threads: vec![vec![*reader], vec![writer.0, writer.1]] };
                    ctx.stats.report(Finding {
                        property: "C17".into(),
                        flavour: fl.into(),
                        clause: "free-running.deadlock".into(),
                        signature: format!("{} | {}(n{}) (looping) || {} (looping, real threads) | free-running.deadlock", fl, name, reader.operands()[0], canon_calls(&[vec![writer.0, writer.1]])),
                        case: json!({"kind": "free-running", "flavour": fl, "shape_index": idx, "accessor": name, "writer": [writer.0, writer.1], "iterations": iters * 20}),
                        detail: format!("{}: {}; with real threads no progress counter moved for 6 s in 3 of 3 fresh processes", name, what),
                    });
                    break 'shapes;
                }
            }
            if !confirmed {
                ctx.inconclusive.push(format!("{}: `{}` takes a read lock it already holds ({}) — std::sync::RwLock may deadlock there when a writer queues in between — but no stall was reproduced with real threads", fl, name, what));
            }
        }
        if !re.is_empty() {
            ctx.stats.extra.insert(format!("reentrant_read_sites.{}", fl), json!(re.iter().map(|x| format!("{}: {}", x.0, x.1)).collect::<Vec<_>>()));
        }
    }
    ctx.stats.sample_kind("free-running", 1, || json!({"free_running_pair": {"reader": shapes_free[0].0, "writer_loop": [shapes_free[0].1 .0, shapes_free[0].1 .1], "iterations_per_thread": iters}}));
    let _: Option<BTreeMap<u8, u8>> = None;
}
