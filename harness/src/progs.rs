//! C14 (construction macros) and C16 (thread-sharing = auto traits): the
//! cases are *programs*. A generator draws cases from proptest strategies,
//! emits Rust source that is compiled against /repo's working tree, runs it
//! and compares its output with the denotation computed by the generator.
use crate::ctx::*;
use crate::pt;
use proptest::prelude::*;
use proptest::strategy::ValueTree;
use proptest::test_runner::{Config, RngAlgorithm, TestRng, TestRunner};
use serde::{Deserialize, Serialize};
use serde_json::{json, Value};
use std::collections::{BTreeMap, BTreeSet};
use std::fmt::Write as _;
use std::process::Command;

fn sample<S: Strategy>(seed: u64, stream: u64, n: usize, s: &S) -> Vec<S::Value> {
    let mut runner = TestRunner::new_with_rng(Config::default(), TestRng::from_seed(RngAlgorithm::ChaCha, &pt::seed_bytes(seed, stream)));
    (0..n).map(|_| s.new_tree(&mut runner).expect("strategy").current()).collect()
}

pub struct Built {
    pub ok: bool,
    pub stdout: String,
    pub stderr: String,
}

/// writes a scratch crate with the given sources (name -> text, one binary each), builds and runs each
pub fn build_and_run(prop: &str, bins: &[(&str, String)], wd: &Watchdog) -> Result<BTreeMap<String, Built>, String> {
    build_and_run_with(prop, bins, wd, "")
}

pub fn build_and_run_with(prop: &str, bins: &[(&str, String)], wd: &Watchdog, extra_deps: &str) -> Result<BTreeMap<String, Built>, String> {
    build_and_run_args(prop, bins, wd, extra_deps, &[])
}

pub fn build_and_run_args(prop: &str, bins: &[(&str, String)], wd: &Watchdog, extra_deps: &str, args: &[String]) -> Result<BTreeMap<String, Built>, String> {
    let dir = verif_root().join("out").join("progs").join(prop);
    std::fs::create_dir_all(dir.join("src/bin")).map_err(|e| e.to_string())?;
    // remove stale binaries' sources, keep unchanged files untouched (cargo then skips the rebuild)
    if let Ok(rd) = std::fs::read_dir(dir.join("src/bin")) {
        for e in rd.filter_map(|e| e.ok()) {
            let name = e.file_name().to_string_lossy().to_string();
            if !bins.iter().any(|(b, _)| format!("{}.rs", b) == name) {
                let _ = std::fs::remove_file(e.path());
            }
        }
    }
    std::fs::write(dir.join("Cargo.toml"), "[package]\nname = \"gvprog\"\nversion = \"0.0.0\"\nedition = \"2021\"\n\n[dependencies]\ngdsl = { path = \"/repo\" }\nEXTRA_DEPS\n[profile.dev]\ndebug = 0\nopt-level = 0\n\n[workspace]\n".replace("EXTRA_DEPS", extra_deps)).map_err(|e| e.to_string())?;
    let _ = std::fs::copy("/repo/Cargo.lock", dir.join("Cargo.lock"));
    for (name, src) in bins {
        let path = dir.join("src/bin").join(format!("{}.rs", name));
        if std::fs::read_to_string(&path).map_or(true, |old| old != *src) {
            std::fs::write(&path, src).map_err(|e| e.to_string())?;
        }
    }
    let target = verif_root().join("harness").join("target").join("progs");
    let mut out = BTreeMap::new();
    for (name, _) in bins {
        wd.tick();
        let o = Command::new("cargo").args(["build", "--offline", "--quiet", "--bin", name]).current_dir(&dir).env("CARGO_TARGET_DIR", &target).env("CARGO_NET_OFFLINE", "true").env_remove("RUSTFLAGS").output().map_err(|e| format!("cannot run cargo: {}", e))?;
        wd.tick();
        if !o.status.success() {
            out.insert(name.to_string(), Built { ok: false, stdout: String::new(), stderr: String::from_utf8_lossy(&o.stderr).to_string() });
            continue;
        }
        let bin = target.join("debug").join(name);
        let r = Command::new(&bin).args(args).output().map_err(|e| format!("cannot run {}: {}", bin.display(), e))?;
        wd.tick();
        out.insert(name.to_string(), Built { ok: r.status.success(), stdout: String::from_utf8_lossy(&r.stdout).to_string(), stderr: String::from_utf8_lossy(&r.stderr).to_string() });
    }
    Ok(out)
}

// =====================================================================
// C14
// =====================================================================

#[derive(Clone, Copy, Debug, PartialEq, Eq, Hash, Serialize, Deserialize)]
pub enum Form {
    K,
    KN,
    KE,
    KNE,
}
#[derive(Clone, Debug, PartialEq, Eq, Hash, Serialize, Deserialize)]
pub struct MacroCase {
    /// 0 digraph, 1 sync_digraph, 2 ungraph, 3 sync_ungraph
    pub flavour: usize,
    pub form: Form,
    pub str_keys: bool,
    /// (key, node value, edge list present?, edges (target key, edge value, render value as call?))
    pub nodes: Vec<(u32, i64, bool, Vec<(u32, i64, bool)>)>,
    /// an edge to this unlisted key is appended to node `.0` (ill-formed invocation)
    pub bad_edge: Option<(usize, u32)>,
}
pub const MODS: [&str; 4] = ["digraph", "sync_digraph", "ungraph", "sync_ungraph"];

fn macro_case_strategy(min_nodes: usize, max_nodes: usize, max_edges: usize) -> impl Strategy<Value = MacroCase> {
    (0usize..4, prop_oneof![Just(Form::K), Just(Form::KN), Just(Form::KE), Just(Form::KNE)], any::<bool>(), proptest::collection::btree_set(0u32..40, min_nodes..=max_nodes), proptest::option::weighted(0.15, (any::<u16>(), 41u32..60))).prop_flat_map(move |(flavour, form, str_keys, keys, bad)| {
        let keys: Vec<u32> = keys.into_iter().collect();
        let n = keys.len();
        let per_node = proptest::collection::vec((-50i64..50, prop_oneof![4 => Just(true), 1 => Just(false)], proptest::collection::vec((any::<u16>(), 0i64..20, any::<bool>(), 0u8..100), 0..=max_edges)), n);
        (per_node, any::<u16>()).prop_map(move |(per, shuffle)| {
            // listed order of nodes: a rotation of the sorted keys so that forward references occur
            let rot = if n == 0 { 0 } else { pt::idx(shuffle, n) };
            let mut order: Vec<usize> = (0..n).collect();
            order.rotate_left(rot);
            let nodes: Vec<(u32, i64, bool, Vec<(u32, i64, bool)>)> = order
                .iter()
                .map(|&i| {
                    let (val, has_list, es) = &per[i];
                    let edges: Vec<(u32, i64, bool)> = if n == 0 || !*has_list {
                        vec![]
                    } else {
                        let mut l: Vec<(u32, i64, bool)> = vec![];
                        for &(t, ev, call, coin) in es.iter() {
                            // 15% self-loop, 12% a verbatim repetition of the previous entry (same peer, same value),
                            // otherwise any listed key (repeats allowed)
                            let tk = if coin < 15 { keys[i] } else { keys[pt::idx(t, n)] };
                            match l.last().cloned() {
                                Some(prev) if coin >= 88 => l.push(prev),
                                _ => l.push((tk, ev, call)),
                            }
                        }
                        l
                    };
                    (keys[i], *val, *has_list, edges)
                })
                .collect();
            let bad_edge = match (bad, n) {
                (Some((at, k)), n) if n > 0 => Some((pt::idx(at, n), k)),
                _ => None,
            };
            MacroCase { flavour, form, str_keys, nodes, bad_edge }
        })
    })
}

fn key_lit(c: &MacroCase, k: u32) -> String {
    if c.str_keys {
        format!("\"k{:02}\"", k)
    } else {
        format!("{}", k)
    }
}
fn key_out(c: &MacroCase, k: u32) -> String {
    if c.str_keys {
        format!("k{:02}", k)
    } else {
        format!("{}", k)
    }
}

/// the macro invocation text
fn invocation(c: &MacroCase) -> String {
    let m = MODS[c.flavour];
    let kt = if c.str_keys { "&str" } else { "u32" };
    let sig = match c.form {
        Form::K => format!("({})", kt),
        Form::KN => format!("({}, i64)", kt),
        Form::KE => format!("({}) => [i64]", kt),
        Form::KNE => format!("({}, i64) => [i64]", kt),
    };
    let mut s = format!("{}![\n        {}\n", m, sig);
    for (i, (k, v, has_list, edges)) in c.nodes.iter().enumerate() {
        let head = match c.form {
            Form::K | Form::KE => format!("({})", key_lit(c, *k)),
            _ => format!("({}, {})", key_lit(c, *k), if v % 3 == 0 { format!("val({})", v) } else if v.rem_euclid(6) == 1 { format!("cell.borrow_mut().take({})", v) } else if v.rem_euclid(6) == 5 { format!("named({}, Ordering::Equal) + Bfs::Z + Order::Z + Path::Z", v) } else { format!("{}", v) }),
        };
        let mut es: Vec<String> = edges
            .iter()
            .map(|(t, ev, call)| match c.form {
                Form::K | Form::KN => key_lit(c, *t),
                _ => format!("({}, {})", key_lit(c, *t), if *call && ev % 2 == 1 { format!("cell.borrow_mut().take({})", ev) } else if *call && ev % 4 == 2 { format!("named({}, Ordering::Equal) + Dfs::Z + Pfs::Z + Method::Z + Transposition::Z + Adjacent::Z", ev) } else if *call { format!("val({})", ev) } else { format!("{}", ev) }),
            })
            .collect();
        let mut listed = *has_list;
        if let Some((at, bk)) = c.bad_edge {
            if at == i {
                listed = true;
                es.push(match c.form {
                    Form::K | Form::KN => key_lit(c, bk),
                    _ => format!("({}, 99)", key_lit(c, bk)),
                });
            }
        }
        if listed {
            let _ = writeln!(s, "        {} => [{}]", head, es.join(", "));
        } else {
            let _ = writeln!(s, "        {} =>", head);
        }
    }
    s.push_str("    ]");
    s
}

/// how many value expressions of the invocation go through the RefCell guard (`cell.borrow_mut().take(x)`)
fn guarded_exprs(c: &MacroCase) -> usize {
    let mut n = 0;
    for (_, v, _, edges) in &c.nodes {
        if matches!(c.form, Form::KN | Form::KNE) && v % 3 != 0 && v.rem_euclid(6) == 1 {
            n += 1;
        }
        if matches!(c.form, Form::KE | Form::KNE) {
            n += edges.iter().filter(|(_, ev, call)| *call && ev % 2 == 1).count();
        }
    }
    n
}

/// expected dump: per node sorted by key `key:value:[peer/evalue,...]`
fn denotation(c: &MacroCase) -> (String, BTreeMap<String, Vec<(String, String)>>) {
    let directed = c.flavour < 2;
    let ev = |e: i64| match c.form {
        Form::K | Form::KN => "()".to_string(),
        _ => e.to_string(),
    };
    let nv = |v: i64| match c.form {
        Form::K | Form::KE => "()".to_string(),
        _ => v.to_string(),
    };
    // keyed by the numeric key so that the order is the program's sort order (u32 numeric; "kNN" strings sort alike)
    let mut own: BTreeMap<u32, Vec<(String, String)>> = BTreeMap::new();
    let mut all: BTreeMap<u32, Vec<(String, String)>> = BTreeMap::new();
    let mut vals: BTreeMap<u32, String> = BTreeMap::new();
    for (k, v, _, _) in &c.nodes {
        own.insert(*k, vec![]);
        all.insert(*k, vec![]);
        vals.insert(*k, nv(*v));
    }
    for (k, _, _, edges) in &c.nodes {
        for (t, e, _) in edges {
            own.get_mut(k).unwrap().push((key_out(c, *t), ev(*e)));
            all.get_mut(k).unwrap().push((key_out(c, *t), ev(*e)));
            if !directed {
                all.get_mut(t).unwrap().push((key_out(c, *k), ev(*e)));
            }
        }
    }
    // directed dump is exact (out lists); undirected compared as multiset + own subsequence by the checker
    let mut s = String::new();
    for (k, l) in if directed { &own } else { &all } {
        let mut l: Vec<String> = l.iter().map(|x| format!("{}/{}", x.0, x.1)).collect();
        if !directed {
            l.sort();
        }
        let _ = write!(s, "{}:{}:[{}];", key_out(c, *k), vals[k], l.join(","));
    }
    (s, own.into_iter().map(|(k, v)| (key_out(c, k), v)).collect())
}

fn c14_program(cases: &[MacroCase]) -> String {
    let mut s = String::from(
        "#![allow(unused, clippy::all)]\nuse gdsl::*;\nuse std::fmt::Debug;\nuse std::cmp::Ordering;\nfn val(x: i64) -> i64 { x }\n/// caller-side items whose names a macro expansion must not capture\nstruct Bfs; struct Dfs; struct Pfs; struct Order; struct Path; struct Method; struct Transposition; struct Adjacent;\nimpl Bfs { const Z: i64 = 0; } impl Dfs { const Z: i64 = 0; } impl Pfs { const Z: i64 = 0; } impl Order { const Z: i64 = 0; } impl Path { const Z: i64 = 0; } impl Method { const Z: i64 = 0; } impl Transposition { const Z: i64 = 0; } impl Adjacent { const Z: i64 = 0; }\nfn named(x: i64, o: Ordering) -> i64 { x + (o as i64) - (Ordering::Equal as i64) }\nstruct Ctr(usize);\nimpl Ctr { fn take(&mut self, x: i64) -> i64 { self.0 += 1; x } }\n\
fn show<T: Debug>(t: &T) -> String { format!(\"{:?}\", t) }\n\
macro_rules! dump_directed { ($g:expr) => {{ let g = &$g; let mut ks: Vec<_> = g.iter().map(|(k, _)| k.clone()).collect(); ks.sort(); let mut s = String::new(); for k in ks { let n = g.get(&k).unwrap(); let es: Vec<String> = n.iter_out().map(|e| format!(\"{}/{}\", e.1.key(), show(&e.2))).collect(); let ins = n.iter_in().count(); s.push_str(&format!(\"{}:{}:[{}];\", k, show(n.value()), es.join(\",\"))); let _ = ins; } s }} }\n\
macro_rules! dump_undirected { ($g:expr) => {{ let g = &$g; let mut ks: Vec<_> = g.iter().map(|(k, _)| k.clone()).collect(); ks.sort(); let mut s = String::new(); let mut raw = String::new(); for k in ks { let n = g.get(&k).unwrap(); let mut es: Vec<String> = n.iter().map(|e| format!(\"{}/{}\", e.1.key(), show(&e.2))).collect(); raw.push_str(&format!(\"{}=>{}|\", k, es.join(\",\"))); es.sort(); s.push_str(&format!(\"{}:{}:[{}];\", k, show(n.value()), es.join(\",\"))); } format!(\"{} RAW {}\", s, raw) }} }\n",
    );
    for (i, c) in cases.iter().enumerate() {
        let m = MODS[c.flavour];
        let kt = if c.str_keys { "&'static str" } else { "u32" };
        let (nt, et) = match c.form {
            Form::K => ("()", "()"),
            Form::KN => ("i64", "()"),
            Form::KE => ("()", "i64"),
            Form::KNE => ("i64", "i64"),
        };
        let dump = if c.flavour < 2 { "dump_directed" } else { "dump_undirected" };
        if c.bad_edge.is_some() {
            let _ = writeln!(s, "fn case_{i}() {{\n    let r = std::panic::catch_unwind(|| {{\n        let cell = std::cell::RefCell::new(Ctr(0));\n        let g: gdsl::{m}::Graph<{kt}, {nt}, {et}> = {inv};\n        {dump}!(g)\n    }});\n    match r {{ Ok(d) => println!(\"CASE {i} RETURNED {{}}\", d), Err(e) => println!(\"CASE {i} PANIC {{}}\", e.downcast_ref::<String>().cloned().or_else(|| e.downcast_ref::<&str>().map(|s| s.to_string())).unwrap_or_default()) }}\n}}", i = i, m = m, kt = kt, nt = nt, et = et, inv = invocation(c), dump = dump);
        } else {
            let _ = writeln!(s, "fn case_{i}() {{\n    let r = std::panic::catch_unwind(|| {{\n        let cell = std::cell::RefCell::new(Ctr(0));\n        let g: gdsl::{m}::Graph<{kt}, {nt}, {et}> = {inv};\n        let evals = cell.borrow().0;\n        format!(\"{{}} EVALS {{}}\", {dump}!(g), evals)\n    }});\n    match r {{ Ok(d) => println!(\"CASE {i} OK {{}}\", d), Err(e) => println!(\"CASE {i} PANIC {{}}\", e.downcast_ref::<String>().cloned().or_else(|| e.downcast_ref::<&str>().map(|s| s.to_string())).unwrap_or_default()) }}\n}}", i = i, m = m, kt = kt, nt = nt, et = et, inv = invocation(c), dump = dump);
        }
    }
    // helpers: *_node! both arities, *_connect! both arities, the empty form
    for (f, m) in MODS.iter().enumerate() {
        let iter = if f < 2 { "iter_out" } else { "iter" };
        let _ = writeln!(
            s,
            "fn helpers_{f}() {{\n    let a: gdsl::{m}::Node<u32, (), i64> = {m}_node!(7);\n    let b: gdsl::{m}::Node<u32, (), i64> = {m}_node!(8);\n    {m}_connect!(&a => &b, 5);\n    {m}_connect!(&a => &b, val(6));\n    let c: gdsl::{m}::Node<&str, i64, ()> = {m}_node!(\"x\", 41 + 1);\n    let d: gdsl::{m}::Node<&str, i64, ()> = {m}_node!(\"y\", 2);\n    {m}_connect!(&c => &d);\n    {m}_connect!(&d => &d);\n    let e: gdsl::{m}::Graph<usize, (), ()> = {m}![];\n    println!(\"HELPERS {f} a={{}}:{{:?}}:[{{}}] b_in={{}} c={{}}:{{}}:[{{}}] d=[{{}}] empty={{}}\", a.key(), a.value(), a.{iter}().map(|e| format!(\"{{}}/{{}}\", e.1.key(), e.2)).collect::<Vec<_>>().join(\",\"), b.{iter}().count(), c.key(), c.value(), c.{iter}().map(|e| format!(\"{{}}/{{:?}}\", e.1.key(), e.2)).collect::<Vec<_>>().join(\",\"), d.{iter}().map(|e| format!(\"{{}}\", e.1.key())).collect::<Vec<_>>().join(\",\"), e.len());\n}}",
            f = f,
            m = m,
            iter = iter
        );
    }
    s.push_str("fn main() {\n    std::panic::set_hook(Box::new(|_| {}));\n");
    for i in 0..cases.len() {
        let _ = writeln!(s, "    case_{}();", i);
    }
    for f in 0..4 {
        let _ = writeln!(s, "    helpers_{}();", f);
    }
    s.push_str("}\n");
    s
}

fn c14_judge(c: &MacroCase, line: Option<&str>) -> Result<(), (&'static str, String)> {
    let Some(line) = line else { return Err(("macro.no-output", "the program printed nothing for this invocation".into())) };
    let (expect, own) = denotation(c);
    if let Some((at, bk)) = c.bad_edge {
        let _ = at;
        if let Some(msg) = line.strip_prefix("PANIC ") {
            let key = key_out(c, bk);
            if msg.contains(&format!("\"{}\"", key)) {
                Ok(())
            } else {
                Err(("macro.panic-does-not-name-the-key", format!("panic message {:?} does not name the unlisted key {:?}", msg, key)))
            }
        } else {
            Err(("macro.unlisted-key-accepted", format!("an edge names an unlisted key but the macro returned a graph: {}", line)))
        }
    } else if let Some(d) = line.strip_prefix("OK ") {
        let directed = c.flavour < 2;
        let (d, evals) = match d.rsplit_once(" EVALS ") {
            Some((a, b)) => (a, b.trim().parse::<usize>().ok()),
            None => (d, None),
        };
        if evals != Some(guarded_exprs(c)) {
            return Err(("macro.value-expression-not-evaluated-exactly-once", format!("{} value expressions go through the counting guard, {:?} evaluations were counted", guarded_exprs(c), evals)));
        }
        let (canon, raw) = match d.split_once(" RAW ") {
            Some((a, b)) => (a, Some(b)),
            None => (d, None),
        };
        if canon != expect {
            return Err((if directed { "macro.directed-graph-differs" } else { "macro.undirected-graph-differs" }, format!("built {:?}, denotes {:?}", canon, expect)));
        }
        if let (false, Some(raw)) = (directed, raw) {
            // each node's own listed edges appear in its iteration in listed order
            for part in raw.split('|').filter(|p| !p.is_empty()) {
                let (k, list) = part.split_once("=>").unwrap_or((part, ""));
                let seq: Vec<&str> = list.split(',').filter(|x| !x.is_empty()).collect();
                let want: Vec<String> = own.get(k).map(|l| l.iter().map(|x| format!("{}/{}", x.0, x.1)).collect()).unwrap_or_default();
                let mut i = 0;
                for x in &seq {
                    if i < want.len() && *x == want[i] {
                        i += 1;
                    }
                }
                if i != want.len() {
                    return Err(("macro.listed-order-not-kept", format!("node {} iterates {:?}; its own listed edges {:?} are not a subsequence", k, seq, want)));
                }
            }
        }
        Ok(())
    } else {
        Err(("macro.well-formed-invocation-panicked", line.to_string()))
    }
}

pub fn run_c14(ctx: &mut Ctx) {
    ctx.rule = "cases = macro invocations as program text: digraph!/ungraph!/sync_digraph!/sync_ungraph! x the four signature forms (K), (K,N), (K)=>[E], (K,N)=>[E] x key type u32/&str, 0-6 nodes with non-contiguous keys listed in rotated order (forward references), edge lists present / empty / omitted, self-loops, repeated edges, values given as literals, calls, expressions naming caller-side items (std::cmp::Ordering and caller types called Bfs, Dfs, Pfs, Order, Path, Method, Transposition, Adjacent, which an expansion must not capture), or calls through a guard temporary (`cell.borrow_mut().take(v)`, counted: each value expression is evaluated exactly once and its temporaries do not outlive it); 15% ill-formed (one edge to an unlisted key); plus per flavour the empty form and both arities of *_node! and *_connect!. Drawn from proptest strategies with the run's seed, emitted into one program per batch, compiled against /repo's working tree with the result type ascribed (gdsl::<flavour>::Graph<K,N,E>), run, and the dump (nodes, values, each node's edges in iteration order) compared with the denotation: directed out-lists exactly, undirected incidence multisets plus listed order of the node's own edges; ill-formed => panic naming the key. Non-trivial = invocation with a forward reference, a repeated edge or a self-loop; distinct = hash of the invocation.".into();
    ctx.assumptions = vec!["no shrinking for program cases (every shrink step costs a compilation); invocations are small by construction".into(), "repeated node keys are not generated (the statement does not define them)".into()];
    let tier = ctx.tier;
    let batches = tier.pick(1usize, 8usize);
    let per = tier.pick(400usize, 500usize);
    let wd = ctx.watchdog.clone();
    wd.limit_s.store(600, std::sync::atomic::Ordering::Relaxed);
    let strat = macro_case_strategy(0, 6, 4);
    // large invocations: 10-24 nodes with up to 9 edges each (buffers, thresholds, long listed orders)
    let large = macro_case_strategy(16, 30, 9);
    for b in 0..batches {
        let mut cases = sample(ctx.seed, 900 + b as u64, per, &strat);
        cases.extend(sample(ctx.seed, 940 + b as u64, tier.pick(160, 200), &large));
        let src = c14_program(&cases);
        let built = match build_and_run("C14", &[("c14", src)], &wd) {
            Ok(b) => b,
            Err(e) => {
                ctx.inconclusive.push(e);
                return;
            }
        };
        let prog = &built["c14"];
        if !prog.ok && prog.stdout.is_empty() {
            // compile failure: find out whether a single well-formed invocation is to blame
            ctx.stats.report(Finding {
                property: "C14".into(),
                flavour: "all".into(),
                clause: "macro.generated-program-does-not-compile".into(),
                signature: "all | generated program | macro.generated-program-does-not-compile".into(),
                case: json!({"kind": "macro-batch", "seed": ctx.seed, "batch": b}),
                detail: trunc(&prog.stderr, 1500),
            });
            return;
        }
        let mut lines: BTreeMap<usize, String> = BTreeMap::new();
        let mut helpers: BTreeMap<usize, String> = BTreeMap::new();
        for l in prog.stdout.lines() {
            if let Some(rest) = l.strip_prefix("CASE ") {
                if let Some((i, body)) = rest.split_once(' ') {
                    if let Ok(i) = i.parse::<usize>() {
                        lines.insert(i, body.to_string());
                    }
                }
            } else if let Some(rest) = l.strip_prefix("HELPERS ") {
                if let Some((i, body)) = rest.split_once(' ') {
                    if let Ok(i) = i.parse::<usize>() {
                        helpers.insert(i, body.to_string());
                    }
                }
            }
        }
        for (i, c) in cases.iter().enumerate() {
            ctx.stats.eval();
            ctx.stats.class(&format!("macro.{}.{:?}{}", MODS[c.flavour], c.form, if c.bad_edge.is_some() { ".ill-formed" } else { "" }));
            let pos: BTreeMap<u32, usize> = c.nodes.iter().enumerate().map(|(p, n)| (n.0, p)).collect();
            let fwd = c.nodes.iter().enumerate().any(|(p, n)| n.3.iter().any(|e| pos[&e.0] > p));
            let selfl = c.nodes.iter().any(|n| n.3.iter().any(|e| e.0 == n.0));
            let rep = c.nodes.iter().any(|n| n.3.iter().map(|e| e.0).collect::<BTreeSet<_>>().len() < n.3.len());
            if fwd || selfl || rep {
                ctx.stats.nontrivial(c);
            }
            if c.nodes.iter().any(|n| !n.2) {
                ctx.stats.class("macro.has-omitted-edge-list");
            }
            let ne: usize = c.nodes.iter().map(|n| n.3.len()).sum();
            ctx.stats.class(match ne {
                0..=7 => "macro.edges.0-7",
                8..=31 => "macro.edges.8-31",
                32..=63 => "macro.edges.32-63",
                _ => "macro.edges.64+",
            });
            if c.nodes.len() >= 3 && fwd {
                ctx.stats.sample_kind(MODS[c.flavour], 1, || json!({"invocation": invocation(c), "denotation": denotation(c).0}));
            }
            if let Err((clause, detail)) = c14_judge(c, lines.get(&i).map(|s| s.as_str())) {
                ctx.stats.report(Finding {
                    property: "C14".into(),
                    flavour: MODS[c.flavour].into(),
                    clause: clause.into(),
                    signature: format!("{} | {:?} | {}", MODS[c.flavour], c.form, clause),
                    case: json!({"kind": "macro", "case": c, "invocation": invocation(c)}),
                    detail,
                });
            }
        }
        // helper macros: directed a=[8/5,8/6]; undirected a lists b twice as well; c -> d, d self-loop
        for (f, m) in MODS.iter().enumerate() {
            ctx.stats.eval();
            let directed = f < 2;
            let expect = if directed { "a=7:():[8/5,8/6] b_in=0 c=x:42:[y/()] d=[y] empty=0".to_string() } else { "a=7:():[8/5,8/6] b_in=2 c=x:42:[y/()] d=[y,y,x] empty=0".to_string() };
            let got = helpers.get(&f).cloned().unwrap_or_default();
            let ok = if directed {
                got == expect
            } else {
                // order inside d's undirected list is not fixed; compare as multiset
                let norm = |s: &str| -> String {
                    let mut parts: Vec<String> = s.split(" d=[").collect::<Vec<_>>().iter().map(|x| x.to_string()).collect();
                    if parts.len() == 2 {
                        if let Some((l, rest)) = parts[1].clone().split_once(']') {
                            let mut v: Vec<&str> = l.split(',').collect();
                            v.sort();
                            parts[1] = format!("{}]{}", v.join(","), rest);
                        }
                    }
                    parts.join(" d=[")
                };
                norm(&got) == norm(&expect)
            };
            if !ok {
                ctx.stats.report(Finding { property: "C14".into(), flavour: (*m).into(), clause: "macro.helper-macros".into(), signature: format!("{} | node!/connect!/empty form | macro.helper-macros", m), case: json!({"kind": "macro-helpers", "flavour": m}), detail: format!("got {:?} expected {:?}", got, expect) });
            }
        }
        ctx.stats.class("programs.compiled");
    }
}

pub fn replay_c14(v: &Value, st: &mut Stats, wd: &Watchdog) -> Result<(), String> {
    if v["kind"] != "macro" {
        return Err("only single-invocation cases can be replayed; re-run the check with the recorded seed for batch failures".into());
    }
    let c: MacroCase = serde_json::from_value(v["case"].clone()).map_err(|e| e.to_string())?;
    let src = c14_program(std::slice::from_ref(&c));
    let built = build_and_run("C14", &[("c14", src)], wd)?;
    let prog = &built["c14"];
    st.eval();
    let line = prog.stdout.lines().find_map(|l| l.strip_prefix("CASE 0 ").map(|s| s.to_string()));
    let res = if !prog.ok && prog.stdout.is_empty() { Err(("macro.generated-program-does-not-compile", trunc(&prog.stderr, 1500))) } else { c14_judge(&c, line.as_deref()) };
    if let Err((clause, detail)) = res {
        st.report(Finding { property: "C14".into(), flavour: MODS[c.flavour].into(), clause: clause.into(), signature: format!("{} | {:?} | {}", MODS[c.flavour], c.form, clause), case: v.clone(), detail });
    }
    st.sample(|| json!({"replayed": invocation(&c)}));
    Ok(())
}

// =====================================================================
// C16
// =====================================================================

#[derive(Clone, Debug, PartialEq, Eq, Hash, Serialize, Deserialize)]
pub enum Ty {
    U8,
    CellU8,
    Guard,
    RcU8,
    Ptr,
    Opt(Box<Ty>),
    Bx(Box<Ty>),
    V(Box<Ty>),
    Pair(Box<Ty>, Box<Ty>),
    Arc(Box<Ty>),
    Mutex(Box<Ty>),
    RwLock(Box<Ty>),
    Cell(Box<Ty>),
    Ref(Box<Ty>),
}
impl Ty {
    pub fn text(&self) -> String {
        match self {
            Ty::U8 => "u8".into(),
            Ty::CellU8 => "Cell<u8>".into(),
            Ty::Guard => "MutexGuard<'static, u8>".into(),
            Ty::RcU8 => "Rc<u8>".into(),
            Ty::Ptr => "*const u8".into(),
            Ty::Opt(a) => format!("Option<{}>", a.text()),
            Ty::Bx(a) => format!("Box<{}>", a.text()),
            Ty::V(a) => format!("Vec<{}>", a.text()),
            Ty::Pair(a, b) => format!("({}, {})", a.text(), b.text()),
            Ty::Arc(a) => format!("Arc<{}>", a.text()),
            Ty::Mutex(a) => format!("Mutex<{}>", a.text()),
            Ty::RwLock(a) => format!("RwLock<{}>", a.text()),
            Ty::Cell(a) => format!("Cell<{}>", a.text()),
            Ty::Ref(a) => format!("&'static {}", a.text()),
        }
    }
    /// (Send, Sync) by the std rules
    pub fn ss(&self) -> (bool, bool) {
        match self {
            Ty::U8 => (true, true),
            Ty::CellU8 => (true, false),
            Ty::Guard => (false, true),
            Ty::RcU8 | Ty::Ptr => (false, false),
            Ty::Opt(a) | Ty::Bx(a) | Ty::V(a) => a.ss(),
            Ty::Pair(a, b) => (a.ss().0 && b.ss().0, a.ss().1 && b.ss().1),
            Ty::Arc(a) => {
                let (s, y) = a.ss();
                (s && y, s && y)
            }
            Ty::Mutex(a) => (a.ss().0, a.ss().0),
            Ty::RwLock(a) => (a.ss().0, a.ss().0 && a.ss().1),
            Ty::Cell(a) => (a.ss().0, false),
            Ty::Ref(a) => (a.ss().1, a.ss().1),
        }
    }
}
pub const LEAVES: [Ty; 5] = [Ty::U8, Ty::CellU8, Ty::Guard, Ty::RcU8, Ty::Ptr];

fn ty_strategy() -> impl Strategy<Value = Ty> {
    let leaf = prop_oneof![3 => Just(Ty::U8), 2 => Just(Ty::CellU8), 2 => Just(Ty::Guard), 1 => Just(Ty::RcU8), 1 => Just(Ty::Ptr)];
    leaf.prop_recursive(3, 8, 2, |inner| {
        prop_oneof![
            inner.clone().prop_map(|a| Ty::Opt(Box::new(a))),
            inner.clone().prop_map(|a| Ty::Bx(Box::new(a))),
            inner.clone().prop_map(|a| Ty::V(Box::new(a))),
            (inner.clone(), inner.clone()).prop_map(|(a, b)| Ty::Pair(Box::new(a), Box::new(b))),
            inner.clone().prop_map(|a| Ty::Arc(Box::new(a))),
            inner.clone().prop_map(|a| Ty::Mutex(Box::new(a))),
            inner.clone().prop_map(|a| Ty::RwLock(Box::new(a))),
            inner.clone().prop_map(|a| Ty::Cell(Box::new(a))),
            inner.prop_map(|a| Ty::Ref(Box::new(a))),
        ]
    })
}

/// public types probed per module: (path template, is it an iterator with a lifetime?)
fn probe_types(m: &str) -> Vec<(String, String)> {
    let directed = m.ends_with("digraph");
    let mut v = vec![("Node".to_string(), format!("gdsl::{}::Node<K, N, E>", m)), ("Edge".to_string(), format!("gdsl::{}::Edge<K, N, E>", m)), ("Graph".to_string(), format!("gdsl::{}::Graph<K, N, E>", m))];
    if directed {
        v.push(("IterOut".to_string(), format!("gdsl::{}::IterOut<'static, K, N, E>", m)));
        v.push(("IterIn".to_string(), format!("gdsl::{}::IterIn<'static, K, N, E>", m)));
    } else {
        v.push(("NodeIterator".to_string(), format!("gdsl::{}::NodeIterator<'static, K, N, E>", m)));
    }
    v
}

const C16_PRELUDE: &str = "#![allow(unused, dead_code)]\nuse std::cell::Cell;\nuse std::fmt;\nuse std::hash::{Hash, Hasher};\nuse std::marker::PhantomData;\nuse std::rc::Rc;\nuse std::sync::{Arc, Mutex, MutexGuard, RwLock};\n\
/// payload wrapper: the auto traits of W<T> are exactly those of T\n\
pub struct W<T>(u8, PhantomData<T>);\n\
impl<T> Clone for W<T> { fn clone(&self) -> Self { W(self.0, PhantomData) } }\n\
impl<T> PartialEq for W<T> { fn eq(&self, o: &Self) -> bool { self.0 == o.0 } }\n\
impl<T> Eq for W<T> {}\n\
impl<T> Hash for W<T> { fn hash<H: Hasher>(&self, h: &mut H) { self.0.hash(h) } }\n\
impl<T> fmt::Display for W<T> { fn fmt(&self, f: &mut fmt::Formatter) -> fmt::Result { write!(f, \"{}\", self.0) } }\n\
struct ProbeSend<T: ?Sized>(PhantomData<T>);\nstruct ProbeSync<T: ?Sized>(PhantomData<T>);\n\
trait FbSend { const V: bool = false; }\ntrait FbSync { const V: bool = false; }\n\
impl<T: ?Sized> FbSend for ProbeSend<T> {}\nimpl<T: ?Sized> FbSync for ProbeSync<T> {}\n\
impl<T: ?Sized + Send> ProbeSend<T> { const V: bool = true; }\nimpl<T: ?Sized + Sync> ProbeSync<T> { const V: bool = true; }\n\
macro_rules! ss { ($t:ty) => { (<ProbeSend<$t>>::V as u8, <ProbeSync<$t>>::V as u8) }; }\n\
/// the same question asked of a VALUE whose type cannot be named (search results): inherent methods win when the bound holds\n\
struct PV<'a, T>(&'a T);\ntrait FbV { fn is_send(&self) -> u8 { 0 } fn is_sync(&self) -> u8 { 0 } }\nimpl<'a, T> FbV for PV<'a, T> {}\n\
struct PVS<'a, T>(&'a T);\ntrait FbVS { fn is_sync(&self) -> u8 { 0 } }\nimpl<'a, T> FbVS for PVS<'a, T> {}\n\
impl<'a, T: Send> PV<'a, T> { fn is_send(&self) -> u8 { 1 } }\nimpl<'a, T: Sync> PVS<'a, T> { fn is_sync(&self) -> u8 { 1 } }\n\
fn w<T>(x: u8) -> W<T> { W(x, PhantomData) }\n";

/// result types that cannot be named (private modules): probed on values obtained from a search
pub const VALUE_PROBES: [&str; 3] = ["Path", "PathEdgeIterator", "PathNodeIterator"];

fn c16_probe_program(triples: &[(Ty, Ty, Ty)]) -> String {
    let mut s = String::from(C16_PRELUDE);
    s.push_str("fn main() {\n");
    // self-check of the payload model
    let mut seen = BTreeSet::new();
    for (i, t) in triples.iter().enumerate() {
        for (j, p) in [&t.0, &t.1, &t.2].iter().enumerate() {
            if seen.insert(p.text()) {
                let _ = writeln!(s, "    {{ let r = ss!(W<{}>); println!(\"PAYLOAD {} {} {{}} {{}}\", r.0, r.1); }}", p.text(), i, j);
            }
        }
    }
    for (i, (k, n, e)) in triples.iter().enumerate() {
        let _ = writeln!(s, "    {{\n        type K = W<{}>; type N = W<{}>; type E = W<{}>;", k.text(), n.text(), e.text());
        for m in MODS {
            for (name, path) in probe_types(m) {
                let _ = writeln!(s, "        {{ let r = ss!({}); println!(\"PROBE {} {} {} {{}} {{}}\", r.0, r.1); }}", path, i, m, name);
            }
            // a real path a -> b and its iterators
            let _ = writeln!(s, "        {{ let a = gdsl::{m}::Node::<K, N, E>::new(w(0), w(1)); let b = gdsl::{m}::Node::<K, N, E>::new(w(2), w(3)); a.connect(&b, w(4)); let p = a.bfs().target(b.key()).search_path().expect(\"path\");\n          println!(\"PROBE {i} {m} Path {{}} {{}}\", PV(&p).is_send(), PVS(&p).is_sync());\n          {{ let it = p.iter_edges(); println!(\"PROBE {i} {m} PathEdgeIterator {{}} {{}}\", PV(&it).is_send(), PVS(&it).is_sync()); }}\n          {{ let it = p.iter_nodes(); println!(\"PROBE {i} {m} PathNodeIterator {{}} {{}}\", PV(&it).is_send(), PVS(&it).is_sync()); }} }}", m = m, i = i);
        }
        s.push_str("    }\n");
    }
    s.push_str("}\n");
    s
}

fn c16_positive_program() -> String {
    let mut s = String::from(C16_PRELUDE);
    s.push_str("fn need<T: Send + Sync>() {}\nfn need_send<T: Send>() {}\nfn need_sync<T: Sync>() {}\n");
    s.push_str("/// must type-check for ALL payloads that are Send + Sync: one generic obligation per public sync type\nfn positive<K, N, E>()\nwhere\n    K: Clone + Hash + PartialEq + Eq + fmt::Display + Send + Sync + 'static,\n    N: Clone + Send + Sync + 'static,\n    E: Clone + Send + Sync + 'static,\n{\n");
    for m in ["sync_digraph", "sync_ungraph"] {
        for (_, path) in probe_types(m) {
            let _ = writeln!(s, "    need::<{}>();", path);
        }
    }
    s.push_str("}\n");
    // and it is really usable across threads
    s.push_str("fn main() {\n    positive::<u32, String, Vec<u8>>();\n    let a = gdsl::sync_digraph::Node::<u32, String, u8>::new(1, \"a\".into());\n    let b = gdsl::sync_digraph::Node::<u32, String, u8>::new(2, \"b\".into());\n    let (a2, b2) = (a.clone(), b.clone());\n    std::thread::spawn(move || a2.connect(&b2, 7)).join().unwrap();\n    let u = gdsl::sync_ungraph::Node::<u32, (), u8>::new(1, ());\n    let w = gdsl::sync_ungraph::Node::<u32, (), u8>::new(2, ());\n    std::thread::scope(|s| { s.spawn(|| u.connect(&w, 1)); });\n    println!(\"POSITIVE ok {} {}\", a.out_degree(), u.degree());\n}\n");
    s
}

pub fn run_c16(ctx: &mut Ctx) {
    ctx.rule = "cases = (K, N, E) payload type triples x public types {Node, Edge, Graph, edge iterators} of all four modules plus the unnameable result types {Path, its edge and node iterators}, probed on values obtained from a real search, as generated probe programs type-checked against /repo's working tree: (a) exhaustive: all 5^3 = 125 triples of the leaves u8 (Send+Sync), Cell<u8> (Send only), MutexGuard<'static,u8> (Sync only), Rc<u8> and *const u8 (neither); (b) proptest-generated nested type expressions (Option, Box, Vec, tuple, Arc, Mutex, RwLock, Cell, &'static; depth <= 3) with their Send/Sync computed by the std rules. Each probe reads the compiler's answer at run time (an inherent associated const guarded by `T: Send` shadows a blanket trait const `false`), so one compilation answers positive and negative facts. Oracle: sync types are Send <=> Sync <=> K, N, E all Send+Sync; plain types never Send nor Sync; the probe answers for the bare payloads equal the generator's model (guards the oracle); a separate program discharges the generic positive obligation for all Send+Sync payloads and moves/shares sync nodes across real threads. Non-trivial = triple with exactly one offending parameter or whose Send and Sync differ; distinct = hash of (triple, module, type).".into();
    ctx.assumptions = vec!["the universally quantified negative half ('for every payload lacking Send or Sync ...') cannot be a single generic obligation in Rust; it is covered by the complete leaf x position matrix and random nested witnesses".into(), "trusted: rustc's auto-trait solver".into()];
    let tier = ctx.tier;
    let wd = ctx.watchdog.clone();
    wd.limit_s.store(600, std::sync::atomic::Ordering::Relaxed);
    let mut triples: Vec<(Ty, Ty, Ty)> = vec![];
    for k in &LEAVES {
        for n in &LEAVES {
            for e in &LEAVES {
                triples.push((k.clone(), n.clone(), e.clone()));
            }
        }
    }
    let exhaustive_n = triples.len();
    let extra = sample(ctx.seed, 950, tier.pick(60, 600), &(ty_strategy(), ty_strategy(), ty_strategy()));
    triples.extend(extra);
    let mut bins: Vec<(String, String)> = vec![("c16pos".into(), c16_positive_program())];
    let chunk = 150usize;
    for (ci, ch) in triples.chunks(chunk).enumerate() {
        bins.push((format!("c16probe{}", ci), c16_probe_program(ch)));
    }
    let bins_ref: Vec<(&str, String)> = bins.iter().map(|(a, b)| (a.as_str(), b.clone())).collect();
    let built = match build_and_run("C16", &bins_ref, &wd) {
        Ok(b) => b,
        Err(e) => {
            ctx.inconclusive.push(e);
            return;
        }
    };
    // positive obligation
    ctx.stats.eval();
    let pos = &built["c16pos"];
    if !pos.ok || !pos.stdout.contains("POSITIVE ok 1 1") {
        ctx.stats.report(Finding {
            property: "C16".into(),
            flavour: "sync".into(),
            clause: if pos.stdout.is_empty() { "positive.obligation-rejected-by-the-compiler".into() } else { "positive.cross-thread-use-failed".into() },
            signature: "sync | generic positive obligation | positive".into(),
            case: json!({"kind": "positive-program"}),
            detail: format!("a sync type is not Send+Sync for some Send+Sync payloads (or cannot be used across threads): {}", trunc(&format!("{}{}", pos.stdout, pos.stderr), 1500)),
        });
    }
    for (ci, ch) in triples.chunks(chunk).enumerate() {
        let p = &built[&format!("c16probe{}", ci)];
        if !p.ok {
            ctx.inconclusive.push(format!("probe program {} did not build/run (generator problem, not a verdict): {}", ci, trunc(&p.stderr, 800)));
            continue;
        }
        ctx.stats.class("programs.compiled");
        let mut probes: BTreeMap<(usize, String, String), (bool, bool)> = BTreeMap::new();
        for l in p.stdout.lines() {
            let f: Vec<&str> = l.split_whitespace().collect();
            if f.first() == Some(&"PROBE") && f.len() == 6 {
                probes.insert((f[1].parse().unwrap_or(usize::MAX), f[2].to_string(), f[3].to_string()), (f[4] == "1", f[5] == "1"));
            } else if f.first() == Some(&"PAYLOAD") && f.len() == 5 {
                let (i, j): (usize, usize) = (f[1].parse().unwrap_or(0), f[2].parse().unwrap_or(0));
                let t = [&ch[i].0, &ch[i].1, &ch[i].2][j];
                ctx.stats.eval();
                if t.ss() != (f[3] == "1", f[4] == "1") {
                    ctx.inconclusive.push(format!("oracle self-check failed: the generator's Send/Sync model for {} is {:?} but rustc says ({}, {})", t.text(), t.ss(), f[3], f[4]));
                }
            }
        }
        for (i, (k, n, e)) in ch.iter().enumerate() {
            let all = [k, n, e].iter().all(|t| t.ss() == (true, true));
            let offending = [k, n, e].iter().filter(|t| t.ss() != (true, true)).count();
            let differ = [k, n, e].iter().any(|t| t.ss().0 != t.ss().1);
            for m in MODS {
                let sync = m.starts_with("sync_");
                for name in probe_types(m).into_iter().map(|x| x.0).chain(VALUE_PROBES.iter().map(|x| x.to_string())) {
                    ctx.stats.eval();
                    ctx.stats.class(&format!("probe.{}.{}", m, name));
                    if offending == 1 || differ {
                        ctx.stats.nontrivial(&(k, n, e, m, &name));
                    }
                    let expect = if sync { (all, all) } else { (false, false) };
                    match probes.get(&(i, m.to_string(), name.clone())) {
                        None => ctx.inconclusive.push(format!("no probe output for {} {} {}", i, m, name)),
                        Some(got) if *got != expect => {
                            let clause = match (sync, got.0 && !expect.0 || got.1 && !expect.1) {
                                (true, true) => "sync-type.shareable-despite-unsafe-payload",
                                (true, false) => "sync-type.not-shareable-despite-safe-payload",
                                (false, _) => "plain-type.is-send-or-sync",
                            };
                            let pos_desc: Vec<String> = [("K", k), ("N", n), ("E", e)].iter().map(|(p, t)| format!("{}:{}{}", p, if t.ss().0 { "Send" } else { "!Send" }, if t.ss().1 { "+Sync" } else { "+!Sync" })).collect();
                            ctx.stats.report(Finding {
                                property: "C16".into(),
                                flavour: m.into(),
                                clause: clause.into(),
                                signature: format!("{} | {} with {} | {}", m, name, pos_desc.join(" "), clause),
                                case: json!({"kind": "probe", "K": k, "N": n, "E": e, "module": m, "type": name}),
                                detail: format!("{}::{}<W<{}>, W<{}>, W<{}>>: rustc says (Send, Sync) = {:?}, expected {:?}", m, name, k.text(), n.text(), e.text(), got, expect),
                            });
                        }
                        _ => {}
                    }
                }
            }
            if i % 37 == 5 {
                ctx.stats.sample_kind("triple", 4, || json!({"K": k.text(), "N": n.text(), "E": e.text(), "payload_send_sync": [k.ss(), n.ss(), e.ss()], "expected_for_sync_types": all}));
            }
        }
    }
    ctx.exhaustive = Some(true);
    ctx.stats.extra.insert("exhaustive_leaf_triples".into(), json!(exhaustive_n));
    ctx.stats.extra.insert("random_nested_triples".into(), json!(triples.len() - exhaustive_n));
}

pub fn replay_c16(v: &Value, st: &mut Stats, wd: &Watchdog) -> Result<(), String> {
    let (k, n, e): (Ty, Ty, Ty) = (serde_json::from_value(v["K"].clone()).map_err(|e| e.to_string())?, serde_json::from_value(v["N"].clone()).map_err(|e| e.to_string())?, serde_json::from_value(v["E"].clone()).map_err(|e| e.to_string())?);
    let built = build_and_run("C16", &[("c16probe0", c16_probe_program(&[(k.clone(), n.clone(), e.clone())]))], wd)?;
    let p = &built["c16probe0"];
    if !p.ok {
        return Err(format!("probe program does not build: {}", trunc(&p.stderr, 600)));
    }
    let all = [&k, &n, &e].iter().all(|t| t.ss() == (true, true));
    for l in p.stdout.lines() {
        let f: Vec<&str> = l.split_whitespace().collect();
        if f.first() == Some(&"PROBE") && f.len() == 6 {
            st.eval();
            let sync = f[2].starts_with("sync_");
            let expect = if sync { (all, all) } else { (false, false) };
            let got = (f[4] == "1", f[5] == "1");
            if got != expect {
                st.report(Finding { property: "C16".into(), flavour: f[2].into(), clause: "probe.mismatch".into(), signature: format!("{} | {} | probe.mismatch", f[2], f[3]), case: v.clone(), detail: format!("{}::{}: rustc says {:?}, expected {:?}", f[2], f[3], got, expect) });
            }
        }
    }
    st.sample(|| json!({"replayed": {"K": k.text(), "N": n.text(), "E": e.text()}}));
    Ok(())
}

// =====================================================================
// C15: API that depends on trait impls (generated programs, one per flavour)
// =====================================================================

fn c15_api_program(m: &str) -> String {
    let directed = m.ends_with("digraph");
    let it = if directed { "iter_out" } else { "iter" };
    format!(
        r#"#![allow(unused)]
use gdsl::{m}::*;
use std::collections::{{BinaryHeap, BTreeSet}};
fn main() {{
    let a = Node::<u32, i64, i64>::new(1, 30);
    let b = Node::<u32, i64, i64>::new(2, 10);
    let c = Node::<u32, i64, i64>::new(3, 20);
    a.connect(&b, 7);
    a.connect(&c, 3);
    a.connect(&b, 5);
    b.connect(&c, 9);
    let mut es: Vec<Edge<u32, i64, i64>> = a.{it}().collect();
    let e0 = es[0].clone();
    let e2 = es[2].clone();
    println!("eq same-endpoints-different-value {{}}", e0 == e2);
    println!("ne {{}}", e0 != es[1]);
    println!("cmp {{:?}} {{:?}}", e0.cmp(&e2), e0.partial_cmp(&es[1]));
    println!("lt {{}} ge {{}}", e0 < e2, e0 >= e2);
    es.sort();
    println!("sorted {{:?}}", es.iter().map(|e| (*e.1.key(), e.2)).collect::<Vec<_>>());
    let mut h: BinaryHeap<Edge<u32, i64, i64>> = a.{it}().collect();
    println!("heap-max {{:?}}", h.pop().map(|e| e.2));
    println!("max {{:?}} min {{:?}}", a.{it}().max().map(|e| e.2), a.{it}().min().map(|e| e.2));
    let mut ns = vec![a.clone(), b.clone(), c.clone()];
    ns.sort();
    println!("nodes-sorted {{:?}}", ns.iter().map(|n| *n.key()).collect::<Vec<_>>());
    let hn: BinaryHeap<Node<u32, i64, i64>> = ns.iter().cloned().collect();
    println!("node-heap-max {{:?}}", hn.peek().map(|n| *n.key()));
    println!("deref {{}} eq-by-key {{}}", *a + 1, a == Node::<u32, i64, i64>::new(1, 99));
    let rev = e0.reverse();
    println!("reverse {{}} {{}} {{}} src {{}} dst {{}} val {{}}", rev.0.key(), rev.1.key(), rev.2, e0.source().key(), e0.target().key(), e0.value());
    let mut g: Graph<u32, i64, i64> = Graph::new();
    g.insert(a.clone());
    g.insert(b.clone());
    g.insert(c.clone());
    let g2: Graph<u32, i64, i64> = Default::default();
    println!("graph {{}} {{}} {{}} idx {{}}", g.len(), g2.is_empty(), g.contains(&2), *g[3].value());
}}
"#,
        m = m,
        it = it
    )
}

pub fn c15_api_programs(ctx: &mut Ctx) {
    let wd = ctx.watchdog.clone();
    let bins: Vec<(String, String)> = MODS.iter().map(|m| (format!("c15api_{}", m), c15_api_program(m))).collect();
    let bins_ref: Vec<(&str, String)> = bins.iter().map(|(a, b)| (a.as_str(), b.clone())).collect();
    let built = match build_and_run("C15", &bins_ref, &wd) {
        Ok(b) => b,
        Err(e) => {
            ctx.inconclusive.push(e);
            return;
        }
    };
    for (plain, sync) in [("digraph", "sync_digraph"), ("ungraph", "sync_ungraph")] {
        ctx.stats.eval();
        ctx.stats.class("api-programs.pairs");
        let (p, s) = (&built[&format!("c15api_{}", plain)], &built[&format!("c15api_{}", sync)]);
        let report = |ctx: &mut Ctx, clause: &str, detail: String| {
            ctx.stats.report(Finding { property: "C15".into(), flavour: format!("{}/{}", plain, sync), clause: clause.into(), signature: format!("{} vs {} | generated API program | {}", plain, sync, clause), case: json!({"kind": "api-program", "pair": plain}), detail });
        };
        match (p.ok, s.ok) {
            (true, true) => {
                if p.stdout != s.stdout {
                    let d = p.stdout.lines().zip(s.stdout.lines()).find(|(a, b)| a != b).map(|(a, b)| format!("{}: `{}`  {}: `{}`", plain, a, sync, b)).unwrap_or_default();
                    report(ctx, "api.output-differs", d);
                }
            }
            (true, false) => report(ctx, "api.program-compiles-only-with-the-plain-flavour", trunc(&s.stderr, 1200)),
            (false, true) => report(ctx, "api.program-compiles-only-with-the-sync-flavour", trunc(&p.stderr, 1200)),
            (false, false) => ctx.inconclusive.push(format!("API program compiles with neither {} nor {}: {}", plain, sync, trunc(&p.stderr, 600))),
        }
    }
    ctx.stats.sample_kind("api-program", 1, || json!({"api_program_for": "each flavour", "first_lines": c15_api_program("digraph").lines().skip(3).take(12).collect::<Vec<_>>()}));
}

// =====================================================================
// Payload-type independence (supports C03 C04 C05 C06 C09 C10 C11 C12 C18):
// every other check instantiates the library with (u16, i32-like, u32). A
// generated program runs proptest-drawn scripts with other payload types —
// heap-allocated keys, zero-sized edge values, extreme numeric values — and
// the traces, rendered through key indices, must equal the baseline trace.
// =====================================================================

#[derive(Clone, Debug, PartialEq, Eq, Hash, Serialize, Deserialize)]
pub enum PSt {
    Con(usize, usize, usize),
    Try(usize, usize, usize),
    Dis(usize, usize),
    Iso(usize),
    Look(usize, usize),
    Lists,
    /// compare two nodes directly: cmp, partial_cmp, <, <=, >, >=, ==, !=
    Cmp(usize, usize),
    /// root, algo 0..4, term 0..3, target (-1 none), transposed, meth 0..3
    Search(usize, u8, u8, i64, bool, u8),
    /// root, pre?, transposed, edges?, meth
    Order(usize, bool, bool, bool, u8),
    GIns(usize),
    GRem(usize),
    GViews,
    Scc,
    Serde,
    /// deserialise a document: declared node indices (may repeat), edges over indices (index >= n = undeclared key)
    Deser(Vec<usize>, Vec<(usize, usize, usize)>),
}

#[derive(Clone, Debug, PartialEq, Eq, Hash, Serialize, Deserialize)]
pub struct PScript {
    pub n: usize,
    pub prio: Vec<i64>,
    pub steps: Vec<PSt>,
}

fn pscript_strategy(prop: &'static str) -> impl Strategy<Value = PScript> {
    (2usize..=6, 1i64..=3).prop_flat_map(move |(n, pr)| {
        let node = move || 0..n;
        let edge_ops = prop_oneof![
            5 => (node(), node(), 0usize..4).prop_map(|(u, v, e)| PSt::Con(u, v, e)),
            2 => (node(), 0usize..4).prop_map(|(u, e)| PSt::Con(u, u, e)),
            2 => (node(), node(), 0usize..4).prop_map(|(u, v, e)| PSt::Try(u, v, e)),
            3 => (node(), node()).prop_map(|(u, v)| PSt::Dis(u, v)),
            1 => node().prop_map(PSt::Iso),
        ];
        let specific: BoxedStrategy<PSt> = match prop {
            "C03" => prop_oneof![2 => Just(PSt::Lists), 2 => (node(), node()).prop_map(|(u, v)| PSt::Look(u, v))].boxed(),
            "C04" => (node(), 0u8..1, 0u8..2, -1i64..7, any::<bool>(), 0u8..3).prop_map(|(r, a, t, tg, tr, m)| PSt::Search(r, a, t, tg, tr, m)).boxed(),
            "C05" => (node(), 1u8..2, 0u8..2, -1i64..7, any::<bool>(), 0u8..3).prop_map(|(r, a, t, tg, tr, m)| PSt::Search(r, a, t, tg, tr, m)).boxed(),
            "C06" => prop_oneof![
                4 => (node(), 2u8..4, 0u8..2, -1i64..7, any::<bool>(), 0u8..3).prop_map(|(r, a, t, tg, tr, m)| PSt::Search(r, a, t, tg, tr, m)),
                1 => (node(), node()).prop_map(|(a, b)| PSt::Cmp(a, b)),
            ].boxed(),
            "C09" => (node(), 0u8..4, 2u8..3, -1i64..0, any::<bool>(), 0u8..3).prop_map(|(r, a, t, tg, tr, m)| PSt::Search(r, a, t, tg, tr, m)).boxed(),
            "C10" => (node(), any::<bool>(), any::<bool>(), any::<bool>(), 0u8..3).prop_map(|(r, p, tr, e, m)| PSt::Order(r, p, tr, e, m)).boxed(),
            "C11" => prop_oneof![3 => node().prop_map(PSt::GIns), 1 => Just(PSt::Scc)].boxed(),
            "C12" => prop_oneof![3 => node().prop_map(PSt::GIns), 1 => Just(PSt::Serde)].boxed(),
            "C13" => (proptest::collection::vec(0..n, 0..=n + 1), proptest::collection::vec((0..n + 2, 0..n + 2, 0usize..4), 0..=5)).prop_map(|(d, e)| PSt::Deser(d, e)).boxed(),
            "C07" => prop_oneof![
                3 => (node(), 0u8..4, 0u8..3, -1i64..7, any::<bool>(), 1u8..3).prop_map(|(r, a, t, tg, tr, m)| PSt::Search(r, a, t, tg, tr, m)),
                1 => (node(), any::<bool>(), any::<bool>(), any::<bool>(), 1u8..3).prop_map(|(r, p, tr, e, m)| PSt::Order(r, p, tr, e, m)),
            ].boxed(),
            _ => prop_oneof![3 => node().prop_map(PSt::GIns), 1 => (0..n + 1).prop_map(PSt::GRem), 2 => Just(PSt::GViews)].boxed(),
        };
        let step = prop_oneof![3 => edge_ops, 2 => specific];
        (proptest::collection::vec(0..pr, n), proptest::collection::vec(step, 4..=28)).prop_map(move |(prio, mut steps)| {
            if matches!(prop, "C11" | "C12") {
                // every node is a member before the container-wide call (precondition), and one final call
                let mut pre: Vec<PSt> = (0..n).map(PSt::GIns).collect();
                pre.append(&mut steps);
                steps = pre;
                steps.push(if prop == "C11" { PSt::Scc } else { PSt::Serde });
            }
            steps.push(PSt::Lists);
            PScript { n, prio, steps }
        })
    })
}

const PAYLOAD_PRELUDE: &str = r#"#![allow(unused, clippy::all)]
use std::cell::RefCell;
use std::collections::HashMap;
use std::fmt::{Debug, Display};
use std::hash::Hash;
#[derive(Clone, Copy, Debug)]
enum St { Cmp(usize, usize), Deser(&'static [usize], &'static [(usize, usize, usize)]), Con(usize, usize, usize), Try(usize, usize, usize), Dis(usize, usize), Iso(usize), Look(usize, usize), Lists, Search(usize, u8, u8, i64, bool, u8), Order(usize, bool, bool, bool, u8), GIns(usize), GRem(usize), GViews, Scc, Serde }
fn reject(s: usize, t: usize) -> bool { (s + 2 * t) % 3 == 0 }
/// a legal but awkward key type: Hash is much coarser than Eq (every second key collides) and Display is not injective
#[derive(Clone, Copy, Debug, PartialEq, Eq, PartialOrd, Ord, serde::Serialize, serde::Deserialize)]
#[serde(transparent)]
pub struct WKey(pub u16);
impl Hash for WKey { fn hash<H: std::hash::Hasher>(&self, h: &mut H) { (self.0 % 2).hash(h) } }
impl Display for WKey { fn fmt(&self, f: &mut std::fmt::Formatter) -> std::fmt::Result { write!(f, "w{}", self.0 / 2) } }

/// a node value type whose PartialOrd (IEEE: -0.0 == 0.0) is coarser than its Ord (total order: -0.0 < 0.0), as f64 wrappers usually are
#[derive(Clone, Copy, Debug, PartialEq, PartialOrd, serde::Serialize, serde::Deserialize)]
pub struct Score(pub f64);
impl Eq for Score {}
impl Ord for Score { fn cmp(&self, o: &Score) -> std::cmp::Ordering { self.0.total_cmp(&o.0) } }
fn score(p: i64) -> Score { Score(match p { 0 => -0.0, 1 => 0.0, p => (p - 1) as f64 }) }

macro_rules! body {
    ($m:ident, $directed:tt) => {
        pub fn run<K, N, E>(n: usize, prio: &[i64], steps: &[St], mk: &dyn Fn(usize) -> K, mn: &dyn Fn(i64) -> N, me: &dyn Fn(usize) -> E, ek: &dyn Fn(&E) -> usize) -> Vec<String>
        where
            K: Clone + Hash + Eq + Display + serde::Serialize + serde::de::DeserializeOwned,
            N: Clone + Ord + serde::Serialize + serde::de::DeserializeOwned,
            E: Clone + serde::Serialize + serde::de::DeserializeOwned,
        {
            use gdsl::$m::*;
            let nodes: Vec<Node<K, N, E>> = (0..n).map(|i| Node::new(mk(i), mn(prio[i]))).collect();
            let idx: HashMap<K, usize> = (0..n + 2).map(|i| (mk(i), i)).collect();
            let ix = |k: &K| -> usize { *idx.get(k).unwrap_or(&999) };
            let tri = |e: &Edge<K, N, E>| -> (usize, usize, usize) { (ix(e.0.key()), ix(e.1.key()), ek(&e.2)) };
            let mut g: Graph<K, N, E> = Graph::new();
            let mut out: Vec<String> = vec![];
            for st in steps {
                let line = std::panic::catch_unwind(std::panic::AssertUnwindSafe(|| -> String {
                    match *st {
                        St::Con(u, v, e) => { nodes[u].connect(&nodes[v], me(e)); format!("con {} {}", u, v) }
                        St::Try(u, v, e) => format!("try {} {} -> {}", u, v, nodes[u].try_connect(&nodes[v], me(e)).is_ok()),
                        St::Dis(u, v) => format!("dis {} {} -> {:?}", u, v, nodes[u].disconnect(&mk(v)).map(|e| ek(&e)).map_err(|_| ())),
                        St::Iso(u) => { nodes[u].isolate(); format!("iso {}", u) }
                        St::Look(u, v) => body!(@look $directed, nodes, u, v, mk, ix),
                        St::Cmp(a, b) => {
                            let (x, y) = (&nodes[a], &nodes[b]);
                            format!("cmp {} {} -> {:?} {:?} {} {} {} {} {} {}", a, b, x.cmp(y), x.partial_cmp(y), x < y, x <= y, x > y, x >= y, x == y, x != y)
                        }
                        St::Lists => {
                            let mut s = String::from("lists");
                            for (i, nd) in nodes.iter().enumerate() { s.push_str(&format!(" {}:{}", i, body!(@lists $directed, nd, tri))); }
                            s
                        }
                        St::Search(r, a, t, tg, tr, m) => {
                            let calls: RefCell<Vec<(usize, usize, usize)>> = RefCell::new(vec![]);
                            let mut fe = |e: &Edge<K, N, E>| calls.borrow_mut().push(tri(e));
                            let mut fl = |e: &Edge<K, N, E>| -> bool { let t3 = tri(e); calls.borrow_mut().push(t3); !reject(t3.0, t3.1) };
                            let tk = if tg >= 0 { Some(mk(tg as usize)) } else { None };
                            let res = body!(@search $directed, nodes[r], a, t, tk, tr, m, fe, fl, tri, ix);
                            format!("search {} a{} t{} tg{} tr{} m{} -> {} calls {:?}", r, a, t, tg, tr && $directed, m, res, calls.borrow())
                        }
                        St::Order(r, pre, tr, edges, m) => {
                            let calls: RefCell<Vec<(usize, usize, usize)>> = RefCell::new(vec![]);
                            let mut fe = |e: &Edge<K, N, E>| calls.borrow_mut().push(tri(e));
                            let mut fl = |e: &Edge<K, N, E>| -> bool { let t3 = tri(e); calls.borrow_mut().push(t3); !reject(t3.0, t3.1) };
                            let res = body!(@order $directed, nodes[r], pre, tr, edges, m, fe, fl, tri, ix);
                            format!("order {} pre{} tr{} e{} m{} -> {} calls {:?}", r, pre, tr && $directed, edges, m, res, calls.borrow())
                        }
                        St::GIns(u) => format!("ins {} -> {} len {}", u, g.insert(nodes[u].clone()), g.len()),
                        St::GRem(u) => format!("rem {} -> {:?} contains {}", u, g.remove(&mk(u)).map(|x| ix(x.key())), g.contains(&mk(u))),
                        St::GViews => {
                            let ks = |v: Vec<Node<K, N, E>>| { let mut k: Vec<usize> = v.iter().map(|x| ix(x.key())).collect(); k.sort(); k };
                            let mut it: Vec<usize> = g.iter().map(|(k, _)| ix(k)).collect(); it.sort();
                            format!("views to_vec {:?} iter {:?} orphans {:?} {}", ks(g.to_vec()), it, ks(g.orphans()), body!(@views $directed, g, ks))
                        }
                        St::Scc => body!(@scc $directed, g, ix),
                        St::Deser(decl, edges) => {
                            let doc: (Vec<(K, N)>, Vec<(K, K, E)>) = (decl.iter().map(|&i| (mk(i), mn(i as i64))).collect(), edges.iter().map(|&(u, v, e)| (mk(u), mk(v), me(e))).collect());
                            let text = serde_json::to_string(&doc).unwrap();
                            match serde_json::from_str::<Graph<K, N, E>>(&text) {
                                Err(_) => "deser Err".to_string(),
                                Ok(h) => {
                                    let mut members: Vec<(usize, Vec<(usize, usize)>)> = h.iter().map(|(k, nd)| (ix(k), { let mut l = body!(@outlist $directed, nd, tri); if !$directed { l.sort(); } l })).collect();
                                    members.sort();
                                    format!("deser Ok {:?}", members)
                                }
                            }
                        }
                        St::Serde => {
                            let doc = serde_json::to_string(&g).unwrap();
                            let back: Graph<K, N, E> = serde_json::from_str(&doc).unwrap();
                            let mut members: Vec<(usize, Vec<(usize, usize)>)> = back.iter().map(|(k, nd)| (ix(k), { let mut l = body!(@outlist $directed, nd, tri); if !$directed { l.sort(); } l })).collect();
                            members.sort();
                            format!("serde {:?}", members)
                        }
                    }
                }));
                match line { Ok(l) => out.push(l), Err(_) => { out.push("PANIC".into()); break; } }
            }
            out
        }
    };
    (@look true, $nodes:ident, $u:ident, $v:ident, $mk:ident, $ix:ident) => { format!("look {} {} -> {} {:?} {:?} deg {} {} root {} leaf {} orphan {}", $u, $v, $nodes[$u].is_connected(&$mk($v)), $nodes[$u].find_outbound(&$mk($v)).map(|x| $ix(x.key())), $nodes[$u].find_inbound(&$mk($v)).map(|x| $ix(x.key())), $nodes[$u].out_degree(), $nodes[$u].in_degree(), $nodes[$u].is_root(), $nodes[$u].is_leaf(), $nodes[$u].is_orphan()) };
    (@look false, $nodes:ident, $u:ident, $v:ident, $mk:ident, $ix:ident) => { format!("look {} {} -> {} {:?} deg {} orphan {}", $u, $v, $nodes[$u].is_connected(&$mk($v)), $nodes[$u].find_adjacent(&$mk($v)).map(|x| $ix(x.key())), $nodes[$u].degree(), $nodes[$u].is_orphan()) };
    (@lists true, $nd:ident, $tri:ident) => { format!("out{:?}in{:?}", $nd.iter_out().map(|e| { let t = $tri(&e); (t.1, t.2) }).collect::<Vec<_>>(), $nd.iter_in().map(|e| { let t = $tri(&e); (t.0, t.2) }).collect::<Vec<_>>()) };
    (@lists false, $nd:ident, $tri:ident) => { format!("adj{:?}", $nd.iter().map(|e| { let t = $tri(&e); (t.1, t.2) }).collect::<Vec<_>>()) };
    (@outlist true, $nd:ident, $tri:ident) => { $nd.iter_out().map(|e| { let t = $tri(&e); (t.1, t.2) }).collect::<Vec<(usize, usize)>>() };
    (@outlist false, $nd:ident, $tri:ident) => { $nd.iter().map(|e| { let t = $tri(&e); (t.1, t.2) }).collect::<Vec<(usize, usize)>>() };
    (@views true, $g:ident, $ks:ident) => { format!("roots {:?} leaves {:?}", $ks($g.roots()), $ks($g.leaves())) };
    (@views false, $g:ident, $ks:ident) => { String::new() };
    (@scc true, $g:ident, $ix:ident) => {{ let mut comps: Vec<Vec<usize>> = $g.scc().iter().map(|c| { let mut v: Vec<usize> = c.iter().map(|x| $ix(x.key())).collect(); v.sort(); v }).collect(); comps.sort(); format!("scc {:?}", comps) }};
    (@scc false, $g:ident, $ix:ident) => { String::from("scc n/a") };
    (@search $directed:tt, $root:expr, $a:ident, $t:ident, $tk:ident, $tr:ident, $m:ident, $fe:ident, $fl:ident, $tri:ident, $ix:ident) => {{
        macro_rules! go { ($b:expr) => {{
            let mut b = $b;
            if let Some(k) = $tk.as_ref() { b = b.target(k); }
            body!(@tr $directed, b, $tr);
            match $m { 1 => b = b.for_each(&mut $fe), 2 => b = b.filter(&mut $fl), _ => {} }
            match $t {
                0 => format!("{:?}", b.search().map(|x| $ix(x.key()))),
                1 => format!("{:?}", b.search_path().map(|p| p.iter_edges().map(|e| $tri(&e)).collect::<Vec<_>>())),
                _ => format!("{:?}", b.search_cycle().map(|p| p.iter_edges().map(|e| $tri(&e)).collect::<Vec<_>>())),
            }
        }} }
        match $a { 0 => go!($root.bfs()), 1 => go!($root.dfs()), 2 => go!($root.pfs().min()), _ => go!($root.pfs().max()) }
    }};
    (@tr true, $b:ident, $tr:ident) => { if $tr { $b = $b.transpose(); } };
    (@tr false, $b:ident, $tr:ident) => {};
    (@order true, $root:expr, $pre:ident, $tr:ident, $edges:ident, $m:ident, $fe:ident, $fl:ident, $tri:ident, $ix:ident) => {{
        let mut o = if $pre { $root.preorder() } else { $root.postorder() };
        if $tr { o = o.transpose(); }
        match $m { 1 => o = o.for_each(&mut $fe), 2 => o = o.filter(&mut $fl), _ => {} }
        if $edges { format!("{:?}", o.search_edges().iter().map(|e| $tri(e)).collect::<Vec<_>>()) } else { format!("{:?}", o.search_nodes().iter().map(|x| $ix(x.key())).collect::<Vec<_>>()) }
    }};
    (@order false, $root:expr, $pre:ident, $tr:ident, $edges:ident, $m:ident, $fe:ident, $fl:ident, $tri:ident, $ix:ident) => {{
        let mut o = if $pre { $root.order().pre() } else { $root.order().post() };
        match $m { 1 => o = o.for_each(&mut $fe), 2 => o = o.filter(&mut $fl), _ => {} }
        if $edges { format!("{:?}", o.search_edges().iter().map(|e| $tri(e)).collect::<Vec<_>>()) } else { format!("{:?}", o.search_nodes().iter().map(|x| $ix(x.key())).collect::<Vec<_>>()) }
    }};
}
mod f_digraph { use super::*; body!(digraph, true); }
mod f_sync_digraph { use super::*; body!(sync_digraph, true); }
mod f_ungraph { use super::*; body!(ungraph, false); }
mod f_sync_ungraph { use super::*; body!(sync_ungraph, false); }

macro_rules! variants { ($m:ident, $name:expr, $si:expr, $n:expr, $prio:expr, $steps:expr) => {{
    // baseline payloads, with and without edge values rendered
    let t0 = $m::run::<u16, i32, u32>($n, $prio, $steps, &|i| i as u16, &|p| p as i32, &|e| e as u32, &|e| *e as usize);
    let t0e = $m::run::<u16, i32, u32>($n, $prio, $steps, &|i| i as u16, &|p| p as i32, &|e| e as u32, &|_| 0);
    // heap-allocated keys, zero-sized edge values
    let t1 = $m::run::<String, i64, ()>($n, $prio, $steps, &|i| format!("key-{}-{}", i, "x".repeat(i % 3)), &|p| p, &|_| (), &|_| 0);
    // extreme numeric values, heap-allocated node values (zero padded so that their order is the numeric order)
    let t2 = $m::run::<u64, String, u64>($n, $prio, $steps, &|i| u64::MAX - 7 * i as u64, &|p| format!("{:06}", p), &|e| u64::MAX - e as u64, &|e| (u64::MAX - *e) as usize);
    // zero-sized node values cannot order a pfs: skipped for N; tuple edge values
    let t3 = $m::run::<char, i64, (u8, Vec<u8>)>($n, $prio, $steps, &|i| (b'a' + i as u8) as char, &|p| p, &|e| (e as u8, vec![e as u8; e]), &|e| e.0 as usize);
    // keys whose Hash collides (every second key) and whose Display is not injective
    let t4 = $m::run::<WKey, i64, u32>($n, $prio, $steps, &|i| WKey(i as u16), &|p| p, &|e| e as u32, &|e| *e as usize);
    // node values whose PartialOrd disagrees with their Ord (the library promises to order nodes by Ord)
    let t5 = $m::run::<u16, Score, u32>($n, $prio, $steps, &|i| i as u16, &|p| score(p), &|e| e as u32, &|e| *e as usize);
    // long keys made of multi-byte characters (error messages, Display widths, byte-offset arithmetic)
    let t6 = $m::run::<String, i64, u32>($n, $prio, $steps, &|i| format!("{}東京都千代田区丸の内一丁目東京都-{}", "a".repeat(i % 4), i), &|p| p, &|e| e as u32, &|e| *e as usize);
    // keys of more than a thousand bytes (3-byte characters behind 0-3 ASCII bytes)
    let t7 = $m::run::<String, i64, u32>($n, $prio, $steps, &|i| format!("{}{}-{}", "b".repeat(i % 4), "日本語".repeat(120 + i), i), &|p| p, &|e| e as u32, &|e| *e as usize);
    for (tag, a, b) in [("kilobyte-multibyte-String-keys", &t0, &t7), ("long-multibyte-String-keys", &t0, &t6), ("String-keys,unit-edges", &t0e, &t1), ("u64::MAX-values,String-node-values", &t0, &t2), ("char-keys,tuple-edges", &t0, &t3), ("keys-with-colliding-Hash-and-Display", &t0, &t4), ("node-values-with-PartialOrd-coarser-than-Ord", &t0, &t5)] {
        if a != b {
            let i = a.iter().zip(b.iter()).position(|(x, y)| x != y).unwrap_or(a.len().min(b.len()));
            println!("DIFF {} {} {} step {} :: baseline `{}` :: variant `{}`", $si, $name, tag, i, a.get(i).map(|s| s.as_str()).unwrap_or("<none>"), b.get(i).map(|s| s.as_str()).unwrap_or("<none>"));
        } else {
            println!("SAME {} {} {} {}", $si, $name, tag, a.len());
        }
    }
}} }
"#;

/// the program is constant (scripts are read from a file given as argv[1]), so it is compiled once per
/// state of /repo and shared by all properties
fn payload_program() -> String {
    let mut s = String::from(PAYLOAD_PRELUDE);
    s.push_str(r#"
fn parse(path: &str) -> Vec<(usize, Vec<i64>, Vec<St>)> {
    let text = std::fs::read_to_string(path).expect("script file");
    let mut out = vec![];
    let mut cur: Option<(usize, Vec<i64>, Vec<St>)> = None;
    for l in text.lines() {
        let f: Vec<&str> = l.split_whitespace().collect();
        if f.is_empty() { continue; }
        let u = |i: usize| -> usize { f[i].parse().unwrap() };
        let b = |i: usize| -> bool { f[i] == "1" };
        match f[0] {
            "S" => { if let Some(c) = cur.take() { out.push(c); } cur = Some((u(1), f[2].split(',').filter(|x| !x.is_empty()).map(|x| x.parse().unwrap()).collect(), vec![])); }
            "Con" => cur.as_mut().unwrap().2.push(St::Con(u(1), u(2), u(3))),
            "Try" => cur.as_mut().unwrap().2.push(St::Try(u(1), u(2), u(3))),
            "Dis" => cur.as_mut().unwrap().2.push(St::Dis(u(1), u(2))),
            "Iso" => cur.as_mut().unwrap().2.push(St::Iso(u(1))),
            "Look" => cur.as_mut().unwrap().2.push(St::Look(u(1), u(2))),
            "Lists" => cur.as_mut().unwrap().2.push(St::Lists),
            "Cmp" => cur.as_mut().unwrap().2.push(St::Cmp(f[1].parse().unwrap(), f[2].parse().unwrap())),
            "Search" => cur.as_mut().unwrap().2.push(St::Search(u(1), u(2) as u8, u(3) as u8, f[4].parse().unwrap(), b(5), u(6) as u8)),
            "Order" => cur.as_mut().unwrap().2.push(St::Order(u(1), b(2), b(3), b(4), u(5) as u8)),
            "GIns" => cur.as_mut().unwrap().2.push(St::GIns(u(1))),
            "GRem" => cur.as_mut().unwrap().2.push(St::GRem(u(1))),
            "GViews" => cur.as_mut().unwrap().2.push(St::GViews),
            "Scc" => cur.as_mut().unwrap().2.push(St::Scc),
            "Serde" => cur.as_mut().unwrap().2.push(St::Serde),
            "Deser" => {
                let (d, e) = f.get(1).copied().unwrap_or("|").split_once('|').unwrap_or(("", ""));
                let decl: Vec<usize> = d.split(',').filter(|x| !x.is_empty()).map(|x| x.parse().unwrap()).collect();
                let edges: Vec<(usize, usize, usize)> = e.split(',').filter(|x| !x.is_empty()).map(|x| { let p: Vec<usize> = x.split(':').map(|y| y.parse().unwrap()).collect(); (p[0], p[1], p[2]) }).collect();
                cur.as_mut().unwrap().2.push(St::Deser(Box::leak(decl.into_boxed_slice()), Box::leak(edges.into_boxed_slice())));
            }
            _ => {}
        }
    }
    if let Some(c) = cur.take() { out.push(c); }
    out
}
fn main() {
    std::panic::set_hook(Box::new(|_| {}));
    let path = std::env::args().nth(1).expect("usage: payload <script file>");
    for (i, (n, prio, steps)) in parse(&path).iter().enumerate() {
        variants!(f_digraph, "digraph", i, *n, prio, steps);
        variants!(f_sync_digraph, "sync_digraph", i, *n, prio, steps);
        variants!(f_ungraph, "ungraph", i, *n, prio, steps);
        variants!(f_sync_ungraph, "sync_ungraph", i, *n, prio, steps);
    }
}
"#);
    s
}

fn pst_line(s: &PSt) -> String {
    let b = |x: &bool| if *x { 1 } else { 0 };
    match s {
        PSt::Con(u, v, e) => format!("Con {} {} {}", u, v, e),
        PSt::Try(u, v, e) => format!("Try {} {} {}", u, v, e),
        PSt::Dis(u, v) => format!("Dis {} {}", u, v),
        PSt::Iso(u) => format!("Iso {}", u),
        PSt::Look(u, v) => format!("Look {} {}", u, v),
        PSt::Lists => "Lists".into(),
        PSt::Cmp(a, b) => format!("Cmp {} {}", a, b),
        PSt::Search(r, a, t, tg, tr, m) => format!("Search {} {} {} {} {} {}", r, a, t, tg, b(tr), m),
        PSt::Order(r, p, tr, e, m) => format!("Order {} {} {} {} {}", r, b(p), b(tr), b(e), m),
        PSt::GIns(u) => format!("GIns {}", u),
        PSt::GRem(u) => format!("GRem {}", u),
        PSt::GViews => "GViews".into(),
        PSt::Scc => "Scc".into(),
        PSt::Serde => "Serde".into(),
        PSt::Deser(d, e) => format!("Deser {}|{}", d.iter().map(|x| x.to_string()).collect::<Vec<_>>().join(","), e.iter().map(|x| format!("{}:{}:{}", x.0, x.1, x.2)).collect::<Vec<_>>().join(",")),
    }
}

/// runs the payload-independence program for `prop` and reports trace differences
pub fn payload_independence(ctx: &mut Ctx, prop: &'static str) {
    let wd = ctx.watchdog.clone();
    wd.limit_s.store(900, std::sync::atomic::Ordering::Relaxed);
    let nscripts = ctx.tier.pick(60usize, 400usize);
    let scripts = sample(ctx.seed, 1900, nscripts, &pscript_strategy(prop));
    // the generated crate needs serde + serde_json (both in /repo's Cargo.lock); constant source, shared by all properties
    let script_file = verif_root().join("out").join("progs").join(format!("payload-scripts-{}.txt", prop));
    let mut text = String::new();
    for sc in &scripts {
        let _ = writeln!(text, "S {} {}", sc.n, sc.prio.iter().map(|p| p.to_string()).collect::<Vec<_>>().join(","));
        for st in &sc.steps {
            let _ = writeln!(text, "{}", pst_line(st));
        }
    }
    let _ = std::fs::create_dir_all(script_file.parent().unwrap());
    if std::fs::write(&script_file, text).is_err() {
        ctx.inconclusive.push("cannot write the payload script file".into());
        return;
    }
    let built = match build_and_run_args("payload", &[("payload", payload_program())], &wd, "serde = { version = \"1\", features = [\"derive\"] }\nserde_json = \"1\"\n", &[script_file.display().to_string()]) {
        Ok(b) => b,
        Err(e) => {
            ctx.inconclusive.push(e);
            return;
        }
    };
    let p = &built["payload"];
    if !p.ok && p.stdout.is_empty() {
        ctx.inconclusive.push(format!("payload-independence program did not build/run: {}", trunc(&p.stderr, 900)));
        return;
    }
    let mut same = 0u64;
    for l in p.stdout.lines() {
        if l.starts_with("SAME ") {
            same += 1;
            ctx.stats.eval();
        } else if let Some(rest) = l.strip_prefix("DIFF ") {
            ctx.stats.eval();
            let f: Vec<&str> = rest.splitn(6, ' ').collect();
            let (si, flavour, tag) = (f[0].parse::<usize>().unwrap_or(0), f[1], f[2]);
            let first_tok = |s: &str| s.split('`').nth(1).unwrap_or("").split(' ').next().unwrap_or("").to_string();
            let kind = first_tok(rest);
            // a difference in the adjacency lists / edge operations is C03's business; other checks only report
            // differences in their own kind of step while the edge operations agree
            let edge_level = matches!(kind.as_str(), "con" | "try" | "dis" | "iso" | "lists" | "look" | "PANIC");
            if edge_level && prop != "C03" {
                ctx.stats.class("payload.edge-level-difference-left-to-C03");
                continue;
            }
            let clause = "payload.trace-depends-on-payload-types";
            ctx.stats.report(Finding {
                property: prop.into(),
                flavour: flavour.into(),
                clause: clause.into(),
                signature: format!("{} | payload types {} | first differing step kind: {} | {}", flavour, tag, kind, clause),
                case: json!({"kind": "payload-script", "script": scripts.get(si), "flavour": flavour, "variant": tag}),
                detail: trunc(rest, 900),
            });
        }
    }
    ctx.stats.class_n("payload.script-x-flavour-x-variant-identical", same);
    for sc in scripts.iter().take(nscripts) {
        ctx.stats.nontrivial(&("payload", sc));
    }
    ctx.stats.sample_kind("payload-script", 1, || json!({"payload_script": scripts[0], "run_with": ["(u16,i32,u32) baseline", "(String,i64,())", "(u64 near MAX, String, u64 near MAX)", "(char,i64,(u8,Vec<u8>))", "(WKey: Hash collides for every second key, Display not injective; i64; u32)", "(u16; Score(f64) with IEEE PartialOrd but total-order Ord, using -0.0 / 0.0; u32)", "(String keys of 40+ bytes made of 3-byte characters behind 0-3 ASCII bytes; i64; u32)"], "on": MODS}));
    ctx.stats.extra.insert("payload_independence".into(), json!({"scripts": nscripts, "variants": 7, "flavours": 4, "identical_traces": same}));
}
