//! gv <PROPERTY> <quick|thorough> [--replay <file>]
//! exit 0 = held (or only known findings), 1 = violation, 2 = cannot decide.
use gvlib::ctx::*;
use gvlib::c15;
use gvlib::c17;
use gvlib::c20;
use gvlib::container;
use gvlib::contmap;
use gvlib::deser;
use gvlib::drops;
use gvlib::hist;
use gvlib::progs;
use gvlib::searchrun;
use serde_json::Value;

fn usage() -> ! {
    eprintln!("usage: gv <C01..C20> <quick|thorough> [--replay <file>]");
    std::process::exit(2)
}

fn run_property(prop: &str, ctx: &mut Ctx) {
    match prop {
        "C01" => hist::run(hist::Which::C01, ctx),
        "C02" => hist::run(hist::Which::C02, ctx),
        "C03" => hist::run(hist::Which::C03, ctx),
        "C04" => searchrun::run("C04", ctx),
        "C05" => searchrun::run("C05", ctx),
        "C06" => searchrun::run("C06", ctx),
        "C07" => searchrun::run("C07", ctx),
        "C08" => searchrun::run("C08", ctx),
        "C09" => searchrun::run("C09", ctx),
        "C10" => searchrun::run("C10", ctx),
        "C11" => container::run_c11(ctx),
        "C12" => container::run_c12(ctx),
        "C13" => deser::run(ctx),
        "C14" => progs::run_c14(ctx),
        "C15" => c15::run(ctx),
        "C16" => progs::run_c16(ctx),
        "C17" => c17::run(ctx),
        "C18" => contmap::run(ctx),
        "C19" => drops::run(ctx),
        "C20" => c20::run(ctx),
        _ => {
            eprintln!("unknown property {}", prop);
            std::process::exit(2)
        }
    }
}

fn replay_case(prop: &str, v: &Value, st: &mut Stats, wd: &Watchdog) -> Result<(), String> {
    let case = if v.get("case").is_some() { &v["case"] } else { v };
    match prop {
        "C01" => hist::replay(hist::Which::C01, case, st),
        "C02" => hist::replay(hist::Which::C02, case, st),
        "C03" => hist::replay(hist::Which::C03, case, st),
        "C04" | "C05" | "C06" | "C07" | "C08" | "C09" | "C10" => searchrun::replay(prop, case, st),
        "C11" => container::replay_c11(case, st),
        "C12" => container::replay_c12(case, st),
        "C13" => deser::replay(case, st),
        "C14" => progs::replay_c14(case, st, wd),
        "C15" => c15::replay(case, st),
        "C16" => progs::replay_c16(case, st, wd),
        "C17" => c17::replay(case, st),
        "C18" => contmap::replay(case, st),
        "C19" => drops::replay(case, st),
        "C20" => c20::replay(case, st),
        _ => Err(format!("no replay for {}", prop)),
    }
}

fn main() {
    let args: Vec<String> = std::env::args().collect();
    if args.len() < 2 {
        usage();
    }
    let prop = args[1].clone();
    if prop == "C13-corpus" {
        match deser::write_corpus() {
            Ok(n) => println!("wrote {} seed files", n),
            Err(e) => {
                eprintln!("{}", e);
                std::process::exit(2)
            }
        }
        return;
    }
    if prop == "C13-pt" {
        silence_panics();
        let g = |i: usize| args.get(i).cloned().unwrap_or_default();
        std::process::exit(deser::pt_child(g(2).parse().unwrap_or(1), g(3).parse().unwrap_or(0), g(4).parse().unwrap_or(10), &g(5), &g(6)));
    }
    if prop == "C13-one" {
        silence_panics();
        std::process::exit(deser::one_child(&args.get(2).cloned().unwrap_or_default()));
    }
    if prop == "OPS-one" {
        silence_panics();
        std::process::exit(gvlib::fuzzrun::ops_one_child(&args.get(2).cloned().unwrap_or_default(), &args.get(3).cloned().unwrap_or_default()));
    }
    if prop == "C17-free" {
        // child process of the C17 free-running tier: gv C17-free <flavour> <shape idx> <iterations>
        silence_panics();
        let idx: usize = args.get(3).and_then(|s| s.parse().ok()).unwrap_or(0);
        let iters: u64 = args.get(4).and_then(|s| s.parse().ok()).unwrap_or(1000);
        std::process::exit(c17::free_child(&args[2], idx, iters, args.get(5).map(|s| s.as_str())));
    }
    if args.len() < 3 {
        usage();
    }
    let tier = match args[2].as_str() {
        "quick" => Tier::Quick,
        "thorough" => Tier::Thorough,
        _ => usage(),
    };
    let seed: u64 = std::env::var("VERIF_SEED").ok().and_then(|s| s.trim().parse::<i128>().ok()).map(|v| v as u64).unwrap_or(1);
    silence_panics();
    let mut ctx = Ctx::new(&prop, tier, seed);
    if args.len() >= 5 && args[3] == "--replay" {
        ctx.replay_only = true;
        let body = std::fs::read_to_string(&args[4]).unwrap_or_else(|e| {
            eprintln!("cannot read {}: {}", args[4], e);
            std::process::exit(2)
        });
        let v: Value = serde_json::from_str(&body).unwrap_or_else(|e| {
            eprintln!("cannot parse {}: {}", args[4], e);
            std::process::exit(2)
        });
        let mut st = Stats::new();
        if let Err(e) = replay_case(&prop, &v, &mut st, &ctx.watchdog.clone()) {
            eprintln!("replay failed: {}", e);
            std::process::exit(2);
        }
        ctx.stats.merge(st);
        std::process::exit(ctx.finish());
    }
    // regression tier: committed replay files first
    let files = replay_files(&prop);
    let mut st = Stats::new();
    for f in &files {
        let body = std::fs::read_to_string(f).unwrap_or_default();
        match serde_json::from_str::<Value>(&body) {
            Ok(v) => {
                if let Err(e) = replay_case(&prop, &v, &mut st, &ctx.watchdog.clone()) {
                    ctx.inconclusive.push(format!("replay file {} unusable: {}", f.display(), e));
                }
            }
            Err(e) => ctx.inconclusive.push(format!("replay file {} unparsable: {}", f.display(), e)),
        }
    }
    st.extra.insert("regression_files_replayed".into(), serde_json::json!(files.len()));
    st.samples.clear();
    ctx.stats.merge(st);
    run_property(&prop, &mut ctx);
    // behaviour must not depend on the payload types: generated program with other key / value types
    for p in ["C03", "C04", "C05", "C06", "C07", "C09", "C10", "C11", "C12", "C13", "C18"] {
        if p == prop {
            progs::payload_independence(&mut ctx, p);
        }
    }
    if tier == Tier::Thorough && ["C01", "C02", "C03", "C04", "C05", "C06", "C07", "C08", "C09", "C10", "C18", "C19", "C20"].contains(&prop.as_str()) {
        // auxiliary coverage-guided campaign: the `ops` target decodes bytes into this property's
        // structured cases and runs the same oracles
        ctx.watchdog.limit_s.store(900, std::sync::atomic::Ordering::Relaxed);
        gvlib::fuzzrun::ops_campaign(&mut ctx, &prop, 640_000, 16);
    }
    std::process::exit(ctx.finish());
}
