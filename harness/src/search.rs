//! C04–C10: searches, cycle searches, orderings — executed through the
//! `Flavour` trait and judged by validity predicates over the plain-data
//! model (`model::View`). Every failing clause is attributed to the
//! properties whose statement it contradicts.
use crate::flavour::*;
use crate::hook;
use crate::model::*;
use crate::types::*;
use serde::{Deserialize, Serialize};
use std::cell::RefCell;
use std::collections::{BTreeMap, BTreeSet};
use std::panic::{catch_unwind, AssertUnwindSafe};

#[derive(Clone, Debug, PartialEq, Eq, Hash, PartialOrd, Ord, Serialize, Deserialize)]
pub enum MethSpec {
    None,
    ForEach,
    Filter(BTreeSet<Tri>),
    /// for_each closure doing the crate's Dijkstra idiom: every node value is reset (root 0, others +-1e6) and an
    /// edge (u, v, e) lowers (pfs-max: raises) v's value through interior mutability while v may be queued.
    /// No model oracle (a heap whose keys move is only required to be *the same* heap): used by the
    /// metamorphic (C08) and differential (C15) comparisons, which compare calls, result and final values.
    Relax,
    /// filter closure that itself runs a search (`algo`, no options) from the offered edge's target for node `k`
    /// and accepts the edge iff it is found or the target is `k` (a pure predicate: "can still reach k");
    /// the set is what the model says this predicate rejects
    FilterNested(Algo, Key, BTreeSet<Tri>),
}
impl MethSpec {
    pub fn kind(&self) -> &'static str {
        match self {
            MethSpec::None => "none",
            MethSpec::ForEach => "for_each",
            MethSpec::Filter(_) => "filter",
            MethSpec::Relax => "for_each(relax-values)",
            MethSpec::FilterNested(..) => "filter(nested-search)",
        }
    }
    pub fn rejected(&self) -> BTreeSet<Tri> {
        match self {
            MethSpec::Filter(r) | MethSpec::FilterNested(_, _, r) => r.clone(),
            _ => BTreeSet::new(),
        }
    }
}

#[derive(Clone, Debug, PartialEq, Eq, Hash, Serialize, Deserialize)]
pub enum Cell {
    Search(SearchCfg),
    Order(OrderCfg),
}
impl Cell {
    pub fn transposed(&self) -> bool {
        match self {
            Cell::Search(c) => c.transposed,
            Cell::Order(c) => c.transposed,
        }
    }
    pub fn label(&self, m: &MethSpec) -> String {
        match self {
            Cell::Search(c) => format!("{:?}{}.{:?}{}.{}", c.algo, if c.transposed { "^T" } else { "" }, c.term, if c.target.is_some() { "+target" } else { "" }, m.kind()),
            Cell::Order(c) => format!("{:?}order{}.{:?}.{}", c.ord, if c.transposed { "^T" } else { "" }, c.term, m.kind()),
        }
    }
}

#[derive(Clone, Debug, Default)]
pub struct SOut {
    pub found: Option<Key>,
    pub found_same_alloc: bool,
    pub path: Option<Vec<Tri>>,
    pub path_access: Option<String>,
    pub nodes: Option<Vec<Key>>,
    pub edges: Option<Vec<Tri>>,
    pub handles_ok: bool,
    pub calls: Vec<Tri>,
    pub panic: Option<String>,
    pub over_budget: bool,
    /// which of flavour::OPT_ORDERS the builder options were applied in
    pub option_order: u8,
    /// MethSpec::Relax: node values after the search
    pub final_prio: Option<Vec<i32>>,
    /// MethSpec::FilterNested: the nested search contradicted the model's reachability
    pub nested_wrong: Option<String>,
}

/// the rejected set of the predicate "the edge's target can reach k (along plain edges)" over the triples a
/// traversal in the given orientation is offered
pub fn nested_filter(g: &GCase, directed: bool, transposed: bool, algo: Algo, k: Key) -> MethSpec {
    let plain = g.view(directed, false);
    let none = BTreeSet::new();
    let acc_all = Acc { rejected: &none };
    let reaches: Vec<bool> = (0..g.n).map(|v| v as Key == k || plain.reach(v as Key, &acc_all).contains(&k)).collect();
    let view = g.view(directed, transposed);
    let mut rej = BTreeSet::new();
    for s in 0..view.n {
        for &(t, e) in &view.inc[s] {
            if !reaches[t as usize] {
                rej.insert((s as Key, t, e));
            }
        }
    }
    MethSpec::FilterNested(algo, k, rej)
}

pub fn build<F: Flavour>(g: &GCase) -> Vec<F::Node> {
    let nodes: Vec<F::Node> = (0..g.n).map(|i| F::new_node(i as Key, NVal::plain(g.prio[i]))).collect();
    for &(u, v, e) in &g.edges {
        F::connect(&nodes[u as usize], &nodes[v as usize], e);
    }
    nodes
}

const BUDGET_MSG: &str = "STEP BUDGET EXCEEDED";

pub fn path_data<F: Flavour>(nodes: &[F::Node], p: &PathB<F>, out: &mut SOut) {
    let edges = p.edges();
    let tris: Vec<Tri> = edges.iter().map(|e| F::tri(e)).collect();
    let mut problems = vec![];
    if p.len() != edges.len() + 1 {
        problems.push(format!("len()={} but {} edges", p.len(), edges.len()));
    }
    let it: Vec<Tri> = p.iter_edges().iter().map(|e| F::tri(e)).collect();
    if it != tris {
        problems.push(format!("iter_edges {:?} != to_vec_edges {:?}", it, tris));
    }
    let mut expect_nodes: Vec<Key> = vec![];
    if let Some(f) = tris.first() {
        expect_nodes.push(f.0);
    }
    expect_nodes.extend(tris.iter().map(|t| t.1));
    let ns: Vec<Key> = p.nodes().iter().map(|n| F::key(n)).collect();
    let ins: Vec<Key> = p.iter_nodes().iter().map(|n| F::key(n)).collect();
    if ns != expect_nodes || ins != expect_nodes {
        problems.push(format!("to_vec_nodes {:?} / iter_nodes {:?} but the edges visit {:?}", ns, ins, expect_nodes));
    }
    if p.last_node().map(|n| F::key(&n)) != tris.last().map(|t| t.1) {
        problems.push("last_node is not the target of the last edge".into());
    }
    if p.last_edge().map(|e| F::tri(&e)) != tris.last().cloned() || p.first_edge().map(|e| F::tri(&e)) != tris.first().cloned() {
        problems.push("first_edge/last_edge disagree with the edge list".into());
    }
    for (i, t) in tris.iter().enumerate() {
        if F::tri(&p.index(i)) != *t {
            problems.push(format!("path[{}] != edge {}", i, i));
        }
    }
    out.handles_ok = edges.iter().all(|e| {
        let (s, d, _) = F::tri(e);
        (s as usize) < nodes.len() && (d as usize) < nodes.len() && F::addr(F::e_src(e)) == F::addr(&nodes[s as usize]) && F::addr(F::e_dst(e)) == F::addr(&nodes[d as usize]) && F::e_accessors(e) == F::tri(e)
    });
    out.path = Some(tris);
    if let Some(m) = p.adapters() {
        problems.push(m);
    }
    if !problems.is_empty() {
        out.path_access = Some(problems.join("; "));
    }
}

/// Runs one cell on real nodes. The callback records every edge it is handed
/// and aborts the traversal (by unwinding) once more than `budget` calls were
/// made, which turns non-termination into a deterministic observation.
pub fn exec<F: Flavour>(nodes: &[F::Node], root: Key, cell: &Cell, meth: &MethSpec, budget: usize) -> SOut {
    if F::SYNC {
        hook::install_self_deadlock_detector();
    }
    let calls: RefCell<Vec<Tri>> = RefCell::new(vec![]);
    let rej = meth.rejected();
    let mut out = SOut { handles_ok: true, found_same_alloc: true, ..Default::default() };
    let relax = *meth == MethSpec::Relax;
    let maxmode = matches!(cell, Cell::Search(c) if c.algo == Algo::PfsMax);
    let saved: Vec<i32> = if relax { nodes.iter().map(|n| F::prio(n)).collect() } else { vec![] };
    if relax {
        for (i, n) in nodes.iter().enumerate() {
            F::set_prio(n, if i == root as usize { 0 } else if maxmode { -1_000_000 } else { 1_000_000 });
        }
    }
    let nested_wrong: RefCell<Option<String>> = RefCell::new(None);
    // builder-option order: a pure function of the case, so that a replay uses the same one
    let oo = {
        use std::hash::{Hash, Hasher};
        let mut h = std::collections::hash_map::DefaultHasher::new();
        (nodes.len(), root, cell, meth.kind()).hash(&mut h);
        (h.finish() % OPT_ORDERS.len() as u64) as u8
    };
    out.option_order = oo;
    let r = catch_unwind(AssertUnwindSafe(|| {
        set_opt_order(oo);
        let mut rl = |e: &F::Edge| {
            {
                let mut c = calls.borrow_mut();
                c.push(F::tri(e));
                if c.len() > budget {
                    drop(c);
                    panic!("{}", BUDGET_MSG);
                }
            }
            let (u, v, w) = (F::e_src(e), F::e_dst(e), (F::e_val(e) % 1000) as i32);
            if maxmode {
                if F::prio(v) < F::prio(u) - w {
                    F::set_prio(v, F::prio(u) - w);
                }
            } else if F::prio(v) > F::prio(u) + w {
                F::set_prio(v, F::prio(u) + w);
            }
        };
        let (nalgo, nk) = if let MethSpec::FilterNested(a, k, _) = meth { (*a, *k) } else { (Algo::Bfs, 0) };
        let mut fnest = |e: &F::Edge| -> bool {
            let t = F::tri(e);
            {
                let mut c = calls.borrow_mut();
                c.push(t);
                if c.len() > budget {
                    drop(c);
                    panic!("{}", BUDGET_MSG);
                }
            }
            let v = F::e_dst(e);
            let reaches = F::key(v) == nk
                || match F::search(v, &SearchCfg { algo: nalgo, transposed: false, term: Term::Search, target: Some(nk) }, Meth::None) {
                    SearchRes::Node(n) => n.is_some(),
                    SearchRes::Path(p) => p.is_some(),
                };
            if reaches == rej.contains(&t) && nested_wrong.borrow().is_none() {
                *nested_wrong.borrow_mut() = Some(format!("nested {:?} search from {} for {} says reachable={} while running inside the filter of the outer search (offered edge {:?})", nalgo, F::key(v), nk, reaches, t));
            }
            reaches
        };
        let mut fe = |e: &F::Edge| {
            let mut c = calls.borrow_mut();
            c.push(F::tri(e));
            if c.len() > budget {
                drop(c);
                panic!("{}", BUDGET_MSG);
            }
        };
        let mut fl = |e: &F::Edge| -> bool {
            let t = F::tri(e);
            let mut c = calls.borrow_mut();
            c.push(t);
            if c.len() > budget {
                drop(c);
                panic!("{}", BUDGET_MSG);
            }
            !rej.contains(&t)
        };
        let m: Meth<F> = match meth {
            MethSpec::None => Meth::None,
            MethSpec::ForEach => Meth::ForEach(&mut fe),
            MethSpec::Filter(_) => Meth::Filter(&mut fl),
            MethSpec::Relax => Meth::ForEach(&mut rl),
            MethSpec::FilterNested(..) => Meth::Filter(&mut fnest),
        };
        let rootn = &nodes[root as usize];
        let mut o = SOut { handles_ok: true, found_same_alloc: true, ..Default::default() };
        match cell {
            Cell::Search(cfg) => match F::search(rootn, cfg, m) {
                SearchRes::Node(n) => {
                    if let Some(n) = n {
                        let k = F::key(&n);
                        o.found = Some(k);
                        o.found_same_alloc = (k as usize) < nodes.len() && F::addr(&n) == F::addr(&nodes[k as usize]);
                    }
                }
                SearchRes::Path(p) => {
                    if let Some(p) = p {
                        path_data::<F>(nodes, &p, &mut o);
                    }
                }
            },
            Cell::Order(cfg) => match F::order(rootn, cfg, m) {
                OrderRes::Nodes(v) => {
                    o.handles_ok = v.iter().all(|n| (F::key(n) as usize) < nodes.len() && F::addr(n) == F::addr(&nodes[F::key(n) as usize]));
                    o.nodes = Some(v.iter().map(|n| F::key(n)).collect());
                }
                OrderRes::Edges(v) => {
                    o.handles_ok = v.iter().all(|e| {
                        let (s, d, _) = F::tri(e);
                        (s as usize) < nodes.len() && (d as usize) < nodes.len() && F::addr(F::e_src(e)) == F::addr(&nodes[s as usize]) && F::addr(F::e_dst(e)) == F::addr(&nodes[d as usize])
                    });
                    o.edges = Some(v.iter().map(|e| F::tri(e)).collect());
                }
            },
        }
        o
    }));
    set_opt_order(0);
    match r {
        Ok(o) => out = o,
        Err(e) => {
            let m = panic_msg(e);
            if m.contains(BUDGET_MSG) {
                out.over_budget = true;
            } else {
                out.panic = Some(m);
            }
        }
    }
    out.calls = calls.into_inner();
    out.option_order = oo;
    out.nested_wrong = nested_wrong.into_inner();
    if relax {
        out.final_prio = Some(nodes.iter().map(|n| F::prio(n)).collect());
        for (n, p) in nodes.iter().zip(saved) {
            F::set_prio(n, p);
        }
    }
    out
}

/// One search / ordering object asked twice; the last edge of `g` is connected
/// between the two calls. Returns the two observations (first judged against
/// g without its last edge, second against g).
pub fn exec_reuse<F: Flavour>(g: &GCase, root: Key, cell: &Cell) -> Option<(GCase, Vec<SOut>)> {
    if g.edges.is_empty() {
        return None;
    }
    if F::SYNC {
        hook::install_self_deadlock_detector();
    }
    let mut g0 = g.clone();
    let last = g0.edges.pop().unwrap();
    // when no other edge joins the same pair, the edge is also taken away again and put back:
    // four calls on graphs g0, g, g0, g (a node reached in one call, not in the next, and again in the one after)
    let unique = !g0.edges.iter().any(|e| (e.0, e.1) == (last.0, last.1) || (!F::DIRECTED && (e.1, e.0) == (last.0, last.1)));
    let calls = if unique { 4 } else { 2 };
    let nodes = build::<F>(&g0);
    let mk = || SOut { handles_ok: true, found_same_alloc: true, ..Default::default() };
    let r = catch_unwind(AssertUnwindSafe(|| {
        let mut step = 0usize;
        let mut between = || {
            if step % 2 == 0 {
                F::connect(&nodes[last.0 as usize], &nodes[last.1 as usize], last.2);
            } else {
                let _ = F::disconnect(&nodes[last.0 as usize], last.1);
            }
            step += 1;
        };
        let rootn = &nodes[root as usize];
        let mut outs: Vec<SOut> = vec![];
        match cell {
            Cell::Search(cfg) => {
                for p in F::search_path_twice(rootn, cfg, calls, &mut between) {
                    let mut o = mk();
                    if let Some(p) = p {
                        path_data::<F>(&nodes, &p, &mut o);
                    }
                    outs.push(o);
                }
            }
            Cell::Order(cfg) => {
                for o in F::order_twice(rootn, cfg, calls, &mut between) {
                    let mut out = mk();
                    match o {
                        OrderRes::Nodes(v) => out.nodes = Some(v.iter().map(|n| F::key(n)).collect()),
                        OrderRes::Edges(v) => out.edges = Some(v.iter().map(|e| F::tri(e)).collect()),
                    }
                    outs.push(out);
                }
            }
        }
        outs
    }));
    match r {
        Ok(outs) => Some((g0, outs)),
        Err(e) => {
            let mut a = mk();
            a.panic = Some(panic_msg(e));
            Some((g0, vec![a.clone(), a]))
        }
    }
}

/// search_path() first, then `cell`'s own terminal on the same search object (closure-free)
pub fn exec_after_path<F: Flavour>(nodes: &[F::Node], root: Key, cfg: &SearchCfg) -> SOut {
    if F::SYNC {
        hook::install_self_deadlock_detector();
    }
    let mut out = SOut { handles_ok: true, found_same_alloc: true, ..Default::default() };
    let r = catch_unwind(AssertUnwindSafe(|| {
        let mut o = SOut { handles_ok: true, found_same_alloc: true, ..Default::default() };
        match F::search_path_then(&nodes[root as usize], cfg, cfg.term) {
            SearchRes::Node(n) => {
                if let Some(n) = n {
                    let k = F::key(&n);
                    o.found = Some(k);
                    o.found_same_alloc = (k as usize) < nodes.len() && F::addr(&n) == F::addr(&nodes[k as usize]);
                }
            }
            SearchRes::Path(p) => {
                if let Some(p) = p {
                    path_data::<F>(nodes, &p, &mut o);
                }
            }
        }
        o
    }));
    match r {
        Ok(o) => out = o,
        Err(e) => out.panic = Some(panic_msg(e)),
    }
    out
}

/// A failed clause plus the properties whose statement it contradicts.
#[derive(Clone, Debug)]
pub struct Tagged {
    pub props: Vec<&'static str>,
    pub fail: Fail,
}

fn algo_prop(a: Algo) -> &'static str {
    match a {
        Algo::Bfs => "C04",
        Algo::Dfs => "C05",
        Algo::PfsMin | Algo::PfsMax => "C06",
    }
}

/// The oracle for one executed cell.
pub fn judge(directed: bool, g: &GCase, root: Key, cell: &Cell, meth: &MethSpec, out: &SOut) -> Vec<Tagged> {
    let mut fails: Vec<Tagged> = vec![];
    if *meth == MethSpec::Relax {
        // values move during the search: only crashes are judged here; the comparisons are made by the callers
        if let Some(p) = &out.panic {
            fails.push(Tagged { props: vec!["C04", "C05", "C06", "C07", "C08", "C09", "C10"], fail: Fail { clause: "search.panic", detail: p.clone() } });
        }
        return fails;
    }
    if let (Some(w), MethSpec::FilterNested(a, _, _)) = (&out.nested_wrong, meth) {
        fails.push(Tagged { props: vec![algo_prop(*a), "C07"], fail: Fail { clause: "filter.nested-search-wrong-answer", detail: w.clone() } });
    }
    let transposed = cell.transposed();
    let view = g.view(directed, transposed);
    let rejected = meth.rejected();
    let acc = Acc { rejected: &rejected };
    let none = BTreeSet::new();
    let acc_all = Acc { rejected: &none };
    let base: &'static str = match cell {
        Cell::Search(c) if c.term == Term::Cycle => "C09",
        Cell::Search(c) => algo_prop(c.algo),
        Cell::Order(_) => "C10",
    };
    // base property + extras; C07 is added for the clauses its statement
    // covers when a (non-empty) filter is in play. C08 is never added here:
    // the C08 driver decides transposition-specific failures by re-running
    // the mirrored cell on the physically reversed graph (searchrun.rs).
    let filter_active = !rejected.is_empty();
    let with = |extra: &[&'static str]| -> Vec<&'static str> {
        let mut v: Vec<&'static str> = vec![base];
        v.extend_from_slice(extra);
        v.sort();
        v.dedup();
        v
    };
    let withf = |extra: &[&'static str]| -> Vec<&'static str> {
        let mut v = with(extra);
        if filter_active && !v.contains(&"C07") {
            v.push("C07");
            v.sort();
        }
        v
    };
    let cb = || -> Vec<&'static str> { vec!["C07"] };
    macro_rules! bad {
        ($props:expr, $clause:expr, $($fmt:tt)*) => {
            fails.push(Tagged { props: $props, fail: Fail { clause: $clause, detail: format!($($fmt)*) } })
        };
    }
    if let Some(p) = &out.panic {
        let clause = if p.starts_with(hook::SELF_DEADLOCK) {
            "search.self-deadlock"
        } else if p.starts_with(REPEATED_CALL_DIFFERS) {
            "search.second-call-on-same-object-differs"
        } else {
            "search.panic"
        };
        bad!(with(&["C07"]), clause, "{}", p);
        return fails;
    }
    if out.over_budget {
        bad!(with(&["C07"]), "search.callback-budget-exceeded", "more than the budgeted number of callback invocations: the traversal does not terminate or revisits edges; first calls {:?}", &out.calls[..out.calls.len().min(12)]);
        return fails;
    }
    if !out.handles_ok || !out.found_same_alloc {
        bad!(with(&[]), "result.foreign-handle", "a node/edge in the result is not the graph's own allocation or Edge accessors disagree with its fields");
    }
    // every edge handed to a closure is a stored edge, in the orientation of the traversal
    for &(s, t, e) in &out.calls {
        if !view.has(s, t, e) {
            let fwd = g.view(directed, false);
            if directed && !transposed && fwd.has(t, s, e) {
                bad!(vec!["C07", "C08"], "untransposed.followed-incoming-edge", "closure was handed {:?} but only {:?} is stored", (s, t, e), (t, s, e));
            } else {
                bad!(cb(), "callback.non-edge", "closure was handed {:?} which is not a stored edge in this orientation", (s, t, e));
            }
            // (no early return: what the search *returns* is judged independently of what its closure saw)
            break;
        }
    }
    // closure calls are a sub-multiset of the edges leaving reachable nodes
    {
        let expect = multiset(&view.edges_from_reachable(root, &acc));
        let got = multiset(&out.calls);
        for (k, c) in &got {
            if expect.get(k).cloned().unwrap_or(0) < *c {
                bad!(cb(), "callback.edge-too-often-or-unreachable", "edge {:?} handed to the closure {} times; it leaves a reachable node {} times", k, c, expect.get(k).cloned().unwrap_or(0));
                break;
            }
        }
    }
    match cell {
        Cell::Search(cfg) => {
            // complete traversals: exactly once per edge leaving a reachable node
            let complete = cfg.term != Term::Cycle && (cfg.target.is_none() || cfg.target == Some(root) || !view.reach(root, &acc).contains(&cfg.target.unwrap()));
            if *meth == MethSpec::ForEach && complete {
                let expect = multiset(&view.edges_from_reachable(root, &acc_all));
                if expect != multiset(&out.calls) {
                    bad!(cb(), "callback.not-exactly-once", "for_each saw {:?}; edges leaving reachable nodes: {:?}", multiset(&out.calls), expect);
                }
            }
            if matches!(cfg.algo, Algo::PfsMin | Algo::PfsMax) && *meth != MethSpec::None {
                if let Err(f) = pfs_order(&view, g, root, cfg, &acc, &out.calls) {
                    fails.push(Tagged { props: vec!["C06"], fail: f });
                }
            }
            match cfg.term {
                Term::Search | Term::Path => match cfg.target {
                    None => {
                        if out.found.is_some() || out.path.is_some() {
                            bad!(with(&[]), "result.without-target", "a search without target returned {:?}/{:?}", out.found, out.path);
                        }
                    }
                    Some(t) if t == root => {}
                    Some(t) => {
                        let dist = if (t as usize) < g.n { view.dist(root, &acc)[t as usize] } else { None };
                        if cfg.term == Term::Search {
                            if dist.is_some() != out.found.is_some() {
                                bad!(withf(&[]), "search.found-iff-reachable", "target {} reachable={} but search() returned {:?}", t, dist.is_some(), out.found);
                            } else if let Some(f) = out.found {
                                if f != t {
                                    bad!(with(&[]), "search.wrong-node", "search() returned node {} for target {}", f, t);
                                }
                            }
                        } else {
                            if dist.is_some() != out.path.is_some() {
                                bad!(withf(&[]), "path.found-iff-reachable", "target {} reachable={} but search_path() returned {:?}", t, dist.is_some(), out.path);
                            } else if let Some(p) = &out.path {
                                match check_walk(&view, &acc, root, t, p) {
                                    Err(f) => {
                                        let fwd = g.view(directed, false);
                                        if f.clause == "path.edge-does-not-exist" && directed && !transposed && p.iter().any(|&(s, t, e)| !fwd.has(s, t, e) && fwd.has(t, s, e)) {
                                            fails.push(Tagged { props: vec![base, "C08"], fail: Fail { clause: "untransposed.followed-incoming-edge", detail: f.detail } });
                                        } else {
                                            let props = if f.clause == "path.rejected-edge" { withf(&[]) } else { with(&[]) };
                                            fails.push(Tagged { props, fail: f });
                                        }
                                    }
                                    Ok(()) => {
                                        let mut ns = vec![root];
                                        ns.extend(p.iter().map(|x| x.1));
                                        if ns.iter().collect::<BTreeSet<_>>().len() != ns.len() {
                                            bad!(with(&[]), "path.node-repeated", "{:?}", p);
                                        }
                                        if cfg.algo == Algo::Bfs && Some(p.len()) != dist {
                                            bad!(with(&[]), "path.not-shortest", "bfs path has {} edges, shortest has {:?}: {:?}", p.len(), dist, p);
                                        }
                                        if let Some(a) = &out.path_access {
                                            bad!(with(&[]), "path.accessors-disagree", "{}", a);
                                        }
                                    }
                                }
                            }
                        }
                    }
                },
                Term::Cycle => {
                    let cl = view.cycle_len(root, &acc);
                    if cl.is_some() != out.path.is_some() {
                        bad!(withf(&[]), "cycle.found-iff-exists", "a closed walk through the root exists={} (shortest {:?}) but search_cycle() returned {:?}", cl.is_some(), cl, out.path);
                    } else if let Some(p) = &out.path {
                        match check_walk(&view, &acc, root, root, p) {
                            Err(f) => fails.push(Tagged { props: if f.clause == "path.rejected-edge" { withf(&[]) } else { with(&[]) }, fail: Fail { clause: match f.clause {
                                "path.empty" => "cycle.empty",
                                "path.start" => "cycle.start",
                                "path.end" => "cycle.end",
                                "path.not-joined" => "cycle.not-joined",
                                "path.edge-does-not-exist" => "cycle.edge-does-not-exist",
                                _ => "cycle.rejected-edge",
                            }, detail: f.detail } }),
                            Ok(()) => {
                                if directed {
                                    let used = multiset(p);
                                    for (k, c) in &used {
                                        if view.count(k.0, k.1, k.2) < *c {
                                            bad!(with(&[]), "cycle.edge-used-twice", "edge {:?} used {} times, stored {} times: {:?}", k, c, view.count(k.0, k.1, k.2), p);
                                            break;
                                        }
                                    }
                                    let inter: Vec<Key> = p.iter().skip(1).map(|x| x.0).collect();
                                    if inter.iter().collect::<BTreeSet<_>>().len() != inter.len() || inter.contains(&root) {
                                        bad!(with(&[]), "cycle.intermediate-node-repeated", "{:?}", p);
                                    }
                                    if cfg.algo == Algo::Bfs && Some(p.len()) != cl {
                                        bad!(with(&[]), "cycle.not-shortest", "bfs cycle has {} edges, shortest has {:?}: {:?}", p.len(), cl, p);
                                    }
                                }
                                if let Some(a) = &out.path_access {
                                    bad!(with(&[]), "path.accessors-disagree", "{}", a);
                                }
                            }
                        }
                    }
                }
            }
        }
        Cell::Order(cfg) => {
            let reach = view.reach(root, &acc);
            if *meth == MethSpec::ForEach {
                let expect = multiset(&view.edges_from_reachable(root, &acc_all));
                if expect != multiset(&out.calls) {
                    bad!(cb(), "callback.not-exactly-once", "for_each saw {:?}; edges leaving reachable nodes: {:?}", multiset(&out.calls), expect);
                }
            }
            match cfg.term {
                OTerm::Nodes => {
                    let ns = out.nodes.clone().unwrap_or_default();
                    if ns.iter().cloned().collect::<BTreeSet<_>>() != reach {
                        bad!(withf(&[]), "order.node-set", "ordering {:?}, reachable through accepted edges {:?}", ns, reach);
                    } else if ns.len() != reach.len() {
                        bad!(with(&[]), "order.node-repeated", "{:?}", ns);
                    } else {
                        match cfg.ord {
                            Ordk::Pre => {
                                if let Err(f) = valid_pre(&view, &acc, root, &ns) {
                                    fails.push(Tagged { props: with(&[]), fail: f });
                                }
                            }
                            Ordk::Post => {
                                if ns.last() != Some(&root) {
                                    bad!(with(&[]), "postorder.root-not-last", "{:?}", ns);
                                } else {
                                    match valid_post(&view, &acc, root, &ns) {
                                        PostVerdict::Valid => {}
                                        PostVerdict::Invalid => bad!(with(&[]), "postorder.not-a-dfs-finishing-order", "{:?}", ns),
                                        PostVerdict::Undecided => fails.push(Tagged { props: vec![], fail: Fail { clause: "UNDECIDED", detail: String::new() } }),
                                    }
                                    // corollary stated in C10, independent of the decider
                                    let pos: BTreeMap<Key, usize> = ns.iter().enumerate().map(|(i, k)| (*k, i)).collect();
                                    'outer: for &u in &reach {
                                        for v in view.succ(u, &acc) {
                                            if u != v && pos[&v] > pos[&u] && !view.reach(v, &acc).contains(&u) {
                                                bad!(with(&[]), "postorder.edge-order", "edge {}->{}: {} comes after {} though {} is not reachable from {}: {:?}", u, v, v, u, u, v, ns);
                                                break 'outer;
                                            }
                                        }
                                    }
                                }
                            }
                        }
                    }
                }
                OTerm::Edges => {
                    let es = out.edges.clone().unwrap_or_default();
                    let targets: Vec<Key> = es.iter().map(|x| x.1).collect();
                    let tset: BTreeSet<Key> = targets.iter().cloned().collect();
                    let mut expect = reach.clone();
                    expect.remove(&root);
                    for &(s, t, e) in &es {
                        if !view.has(s, t, e) {
                            let fwd = g.view(directed, false);
                            if directed && !transposed && fwd.has(t, s, e) {
                                bad!(vec!["C08", "C10"], "untransposed.followed-incoming-edge", "{:?}", (s, t, e));
                            } else {
                                bad!(with(&[]), "order.edge-does-not-exist", "{:?}", (s, t, e));
                            }
                            return fails;
                        }
                        if !acc.ok(s, t, e) {
                            bad!(withf(&[]), "order.rejected-edge", "{:?}", (s, t, e));
                            return fails;
                        }
                    }
                    if tset != expect || targets.len() != expect.len() {
                        bad!(with(&[]), "order.edges-one-per-node", "edge targets {:?}, reachable non-root nodes {:?}", targets, expect);
                    } else {
                        // the order of the entered nodes must itself be a valid order
                        let verdict_ok = match cfg.ord {
                            Ordk::Pre => {
                                let mut ns = vec![root];
                                ns.extend(targets.iter().cloned());
                                valid_pre(&view, &acc, root, &ns).is_ok()
                            }
                            Ordk::Post => {
                                let mut ns = targets.clone();
                                ns.push(root);
                                !matches!(valid_post(&view, &acc, root, &ns), PostVerdict::Invalid)
                            }
                        };
                        if !verdict_ok {
                            bad!(with(&[]), "order.edges-not-in-dfs-order", "{:?}", es);
                        }
                        // sources form a tree rooted at root: every source is the root or was entered
                        for &(s, _, _) in &es {
                            if s != root && !tset.contains(&s) {
                                bad!(with(&[]), "order.edges-not-a-tree", "{:?}", es);
                                break;
                            }
                        }
                    }
                }
            }
        }
    }
    fails
}

/// C06: expansion order over the closure call sequence.
fn pfs_order(view: &View, g: &GCase, root: Key, cfg: &SearchCfg, acc: &Acc, calls: &[Tri]) -> Result<(), Fail> {
    let mut discovered = BTreeSet::from([root]);
    let mut expanded: BTreeSet<Key> = BTreeSet::new();
    let mut cur: Option<Key> = None;
    for &(s, t, e) in calls {
        if cur != Some(s) {
            if expanded.contains(&s) {
                return fail("pfs.node-expanded-twice", format!("node {} expanded again; calls {:?}", s, calls));
            }
            if !discovered.contains(&s) {
                return fail("pfs.expanded-undiscovered-node", format!("node {} expanded before being discovered; calls {:?}", s, calls));
            }
            for &y in discovered.iter() {
                if y != s && !expanded.contains(&y) && !view.inc[y as usize].is_empty() {
                    let (py, ps) = (g.prio[y as usize], g.prio[s as usize]);
                    let bad = if cfg.algo == Algo::PfsMin { py < ps } else { py > ps };
                    if bad {
                        return fail("pfs.priority-order", format!("{:?}: started expanding node {} (value {}) while discovered node {} (value {}) was waiting; calls {:?}", cfg.algo, s, ps, y, py, calls));
                    }
                }
            }
            expanded.insert(s);
            cur = Some(s);
        }
        if acc.ok(s, t, e) {
            discovered.insert(t);
        }
    }
    Ok(())
}

pub fn budget_for(g: &GCase) -> usize {
    4 * g.edges.len() + 16
}

pub const ALGOS: [Algo; 4] = [Algo::Bfs, Algo::Dfs, Algo::PfsMin, Algo::PfsMax];
