//! One trait over the four textual copies of the library
//! (digraph, sync_digraph, ungraph, sync_ungraph) with K = u16, N = NVal,
//! E = u32, so every oracle is written once.
use crate::types::*;
use serde::{Deserialize, Serialize};
use std::cmp::Ordering;

#[derive(Clone, Copy, Debug, PartialEq, Eq, Hash, PartialOrd, Ord, Serialize, Deserialize)]
pub enum Algo {
    Bfs,
    Dfs,
    PfsMin,
    PfsMax,
}
#[derive(Clone, Copy, Debug, PartialEq, Eq, Hash, PartialOrd, Ord, Serialize, Deserialize)]
pub enum Term {
    Search,
    Path,
    Cycle,
}
#[derive(Clone, Copy, Debug, PartialEq, Eq, Hash, PartialOrd, Ord, Serialize, Deserialize)]
pub struct SearchCfg {
    pub algo: Algo,
    pub transposed: bool,
    pub term: Term,
    pub target: Option<Key>,
}
#[derive(Clone, Copy, Debug, PartialEq, Eq, Hash, PartialOrd, Ord, Serialize, Deserialize)]
pub enum Ordk {
    Pre,
    Post,
}
#[derive(Clone, Copy, Debug, PartialEq, Eq, Hash, PartialOrd, Ord, Serialize, Deserialize)]
pub enum OTerm {
    Nodes,
    Edges,
}
#[derive(Clone, Copy, Debug, PartialEq, Eq, Hash, PartialOrd, Ord, Serialize, Deserialize)]
pub struct OrderCfg {
    pub ord: Ordk,
    pub transposed: bool,
    pub term: OTerm,
}
#[derive(Clone, Copy, Debug, PartialEq, Eq, Hash, PartialOrd, Ord, Serialize, Deserialize)]
pub enum IterKind {
    /// iter_out() (directed) / iter() (undirected)
    Out,
    /// iter_in() (directed only)
    In,
    /// `for e in &node`
    IntoIter,
}

pub enum Meth<'a, F: Flavour + ?Sized> {
    None,
    ForEach(&'a mut dyn FnMut(&F::Edge)),
    Filter(&'a mut dyn FnMut(&F::Edge) -> bool),
}
pub enum SearchRes<F: Flavour + ?Sized> {
    Node(Option<F::Node>),
    Path(Option<PathB<F>>),
}
pub enum OrderRes<F: Flavour + ?Sized> {
    Nodes(Vec<F::Node>),
    Edges(Vec<F::Edge>),
}
pub type Attrs = Option<Vec<(String, String)>>;
/// panic message prefix used when a second terminal call on the same search object answers differently
pub const REPEATED_CALL_DIFFERS: &str = "REPEATED-CALL-DIFFERS";
/// the second-call comparison only makes sense while nobody else mutates the graph: C17 switches it off
pub static REPEAT_CHECK: std::sync::atomic::AtomicBool = std::sync::atomic::AtomicBool::new(true);
pub fn repeat_check() -> bool {
    REPEAT_CHECK.load(std::sync::atomic::Ordering::Relaxed)
}

/// An iterator driven through the provided `Iterator` methods must behave like the sequence its `next()` yields.
/// Quadratic parts are bounded to the first / last 48 positions.
pub fn iter_conformance<I: Iterator, X: PartialEq + std::fmt::Debug>(name: &str, mk: &dyn Fn() -> I, key: &dyn Fn(&I::Item) -> X) -> Option<String> {
    let reference: Vec<X> = {
        let mut it = mk();
        let mut v = vec![];
        while let Some(x) = it.next() {
            v.push(key(&x));
            if v.len() > 200_000 {
                return Some(format!("{} does not end", name));
            }
        }
        v
    };
    let n = reference.len();
    let positions: Vec<usize> = (0..=n + 1).filter(|i| *i < 48 || *i + 48 > n).collect();
    for &i in &positions {
        let got = mk().nth(i).map(|x| key(&x));
        if got.as_ref() != reference.get(i) {
            return Some(format!("{}.nth({}) = {:?} but the {}-element sequence by next() has {:?} there", name, i, got, n, reference.get(i)));
        }
        let got: Vec<X> = mk().skip(i).map(|x| key(&x)).collect();
        if got[..] != reference[i.min(n)..] {
            return Some(format!("{}.skip({}) yields {} elements, next() yields {} after that position", name, i, got.len(), n - i.min(n)));
        }
    }
    // nth after some next() calls
    for k in 0..=n.min(3) {
        for j in 0..=3usize {
            let mut it = mk();
            for _ in 0..k {
                it.next();
            }
            let got = it.nth(j).map(|x| key(&x));
            if got.as_ref() != reference.get(k + j) {
                return Some(format!("{}: {} x next() then nth({}) = {:?}, expected {:?}", name, k, j, got, reference.get(k + j)));
            }
            let rest: Vec<X> = it.map(|x| key(&x)).collect();
            if rest[..] != reference[(k + j + 1).min(n)..] {
                return Some(format!("{}: after {} x next() and nth({}) the rest has {} elements, expected {}", name, k, j, rest.len(), n - (k + j + 1).min(n)));
            }
        }
    }
    for step in 1..=n.clamp(1, 5) {
        let got: Vec<X> = mk().step_by(step).map(|x| key(&x)).collect();
        let want: Vec<&X> = reference.iter().step_by(step).collect();
        if got.len() != want.len() || got.iter().zip(want.iter()).any(|(a, b)| a != *b) {
            return Some(format!("{}.step_by({}) yields {:?}, expected {:?}", name, step, got.iter().take(12).collect::<Vec<_>>(), want.iter().take(12).collect::<Vec<_>>()));
        }
    }
    if mk().count() != n {
        return Some(format!("{}.count() = {} but next() yields {}", name, mk().count(), n));
    }
    if mk().last().map(|x| key(&x)).as_ref() != reference.last() {
        return Some(format!("{}.last() differs from the last element yielded by next()", name));
    }
    let mut it = mk();
    let mut remaining = n;
    loop {
        let (lo, hi) = it.size_hint();
        if lo > remaining || hi.map_or(false, |h| h < remaining) {
            return Some(format!("{}.size_hint() = ({}, {:?}) with {} elements still to come", name, lo, hi, remaining));
        }
        if it.next().is_none() {
            break;
        }
        remaining -= 1;
    }
    None
}

/// orders in which the builder options (0 min/max, 1 target, 2 transpose, 3 for_each/filter) are applied
/// (options that take no closure are idempotent: the last two orders apply them twice)
pub const OPT_ORDERS: [&[u8]; 6] = [&[0, 1, 2, 3], &[3, 2, 1, 0], &[2, 3, 0, 1], &[1, 3, 0, 2], &[2, 0, 1, 3, 2], &[1, 2, 0, 2, 3, 0, 1, 2]];
thread_local! { static OPT_ORDER: std::cell::Cell<u8> = const { std::cell::Cell::new(0) }; }
pub fn opt_order() -> u8 {
    OPT_ORDER.with(|c| c.get())
}
pub fn set_opt_order(v: u8) {
    OPT_ORDER.with(|c| c.set(v))
}

/// Iterator contract: lower bound <= upper bound (a size_hint that panics is caught by the caller)
pub fn check_hint(h: (usize, Option<usize>)) {
    if let (lo, Some(hi)) = h {
        assert!(lo <= hi, "size_hint lower bound {} above upper bound {}", lo, hi);
    }
}

pub trait Flavour: 'static {
    const NAME: &'static str;
    const DIRECTED: bool;
    const SYNC: bool;
    const HAS_DOT_ATTR: bool;
    type Node: Clone;
    type Edge: Clone;
    type Graph;

    // ---- nodes
    fn new_node(k: Key, v: NVal) -> Self::Node;
    fn key(n: &Self::Node) -> Key;
    fn prio(n: &Self::Node) -> i32;
    /// change the node's value in place (interior mutability, as in the crate's Dijkstra examples)
    fn set_prio(n: &Self::Node, v: i32);
    fn prio_deref(n: &Self::Node) -> i32;
    /// address of the node's value: identifies the allocation
    fn addr(n: &Self::Node) -> usize;
    fn connect(a: &Self::Node, b: &Self::Node, e: EV);
    fn try_connect(a: &Self::Node, b: &Self::Node, e: EV) -> Result<(), ErrKind>;
    fn disconnect(a: &Self::Node, k: Key) -> Result<EV, ErrKind>;
    fn isolate(a: &Self::Node);
    /// directed: out list; undirected: incidence list (iter())
    fn out_list(n: &Self::Node) -> Vec<(Key, EV)>;
    /// directed: in list (peer = source); undirected: empty
    fn in_list(n: &Self::Node) -> Vec<(Key, EV)>;
    fn edges(n: &Self::Node, kind: IterKind) -> Vec<Self::Edge>;
    /// drive an edge iterator by hand; `f` returns false to stop
    fn iterate(n: &Self::Node, kind: IterKind, f: &mut dyn FnMut(&Self::Edge) -> bool);
    /// the same loop written with std adapters: map + take_while + collect into a Vec and a HashSet-like
    /// consumer (both ask the iterator for `size_hint` while the loop is live)
    fn iterate_adapters(n: &Self::Node, kind: IterKind, f: &mut dyn FnMut(&Self::Edge) -> bool);
    /// the node's edge iterators against `iter_conformance`
    fn iter_adapters_check(n: &Self::Node) -> Option<String>;
    fn out_degree(n: &Self::Node) -> usize; // undirected: degree()
    fn in_degree(n: &Self::Node) -> usize; // undirected: 0
    fn is_root(n: &Self::Node) -> bool; // undirected: unsupported (false)
    fn is_leaf(n: &Self::Node) -> bool;
    fn is_orphan(n: &Self::Node) -> bool;
    fn is_connected(n: &Self::Node, k: Key) -> bool;
    fn find_out(n: &Self::Node, k: Key) -> Option<Self::Node>; // undirected: find_adjacent
    fn find_in(n: &Self::Node, k: Key) -> Option<Self::Node>; // undirected: None
    fn node_sizeof(n: &Self::Node) -> usize;
    fn node_eq(a: &Self::Node, b: &Self::Node) -> bool;
    fn node_ne(a: &Self::Node, b: &Self::Node) -> bool;
    fn node_cmp(a: &Self::Node, b: &Self::Node) -> Ordering;
    fn node_partial_cmp(a: &Self::Node, b: &Self::Node) -> Option<Ordering>;
    /// (<, <=, >, >=)
    fn node_rel(a: &Self::Node, b: &Self::Node) -> (bool, bool, bool, bool);

    // ---- edges
    fn mk_edge(a: &Self::Node, b: &Self::Node, e: EV) -> Self::Edge;
    fn e_src(e: &Self::Edge) -> &Self::Node;
    fn e_dst(e: &Self::Edge) -> &Self::Node;
    fn e_val(e: &Self::Edge) -> EV;
    fn e_accessors(e: &Self::Edge) -> Tri;
    fn e_reverse(e: &Self::Edge) -> Self::Edge;
    fn edge_eq(a: &Self::Edge, b: &Self::Edge) -> bool;
    fn tri(e: &Self::Edge) -> Tri {
        (Self::key(Self::e_src(e)), Self::key(Self::e_dst(e)), Self::e_val(e))
    }

    // ---- searches
    fn search(root: &Self::Node, cfg: &SearchCfg, m: Meth<Self>) -> SearchRes<Self>;
    fn order(root: &Self::Node, cfg: &OrderCfg, m: Meth<Self>) -> OrderRes<Self>;
    /// the same search object asked twice (search_path / search for pfs), with `between` run in between
    fn search_path_twice(root: &Self::Node, cfg: &SearchCfg, calls: usize, between: &mut dyn FnMut()) -> Vec<Option<PathB<Self>>>;
    /// search_path() followed by a different terminal (search / search_cycle) on the same search object
    fn search_path_then(root: &Self::Node, cfg: &SearchCfg, second: Term) -> SearchRes<Self>;
    /// the same ordering object asked twice
    fn order_twice(root: &Self::Node, cfg: &OrderCfg, calls: usize, between: &mut dyn FnMut()) -> Vec<OrderRes<Self>>;

    // ---- containers
    fn g_new() -> Self::Graph;
    fn g_default() -> Self::Graph;
    fn g_insert(g: &mut Self::Graph, n: Self::Node) -> bool;
    fn g_get(g: &Self::Graph, k: Key) -> Option<Self::Node>;
    /// `g[k]` (panics when absent, like std)
    fn g_index(g: &Self::Graph, k: Key) -> Self::Node;
    /// `g[&k]` where the flavour has it, else `g[k]`
    fn g_index_ref(g: &Self::Graph, k: Key) -> Self::Node;
    fn g_contains(g: &Self::Graph, k: Key) -> bool;
    fn g_len(g: &Self::Graph) -> usize;
    fn g_is_empty(g: &Self::Graph) -> bool;
    fn g_remove(g: &mut Self::Graph, k: Key) -> Option<Self::Node>;
    fn g_to_vec(g: &Self::Graph) -> Vec<Self::Node>;
    fn g_iter(g: &Self::Graph) -> Vec<(Key, Self::Node)>;
    fn g_roots(g: &Self::Graph) -> Vec<Self::Node>; // directed only
    fn g_leaves(g: &Self::Graph) -> Vec<Self::Node>; // directed only
    fn g_orphans(g: &Self::Graph) -> Vec<Self::Node>;
    fn g_scc(g: &Self::Graph) -> Vec<Vec<Self::Node>>; // directed only
    fn g_to_dot(g: &Self::Graph) -> String;
    fn g_to_dot_attr(
        g: &Self::Graph,
        gattr: &dyn Fn(&Self::Graph) -> Attrs,
        nattr: &dyn Fn(&Self::Node) -> Attrs,
        eattr: &dyn Fn(&Self::Node, &Self::Node, &EV) -> Attrs,
    ) -> Option<String>;
    fn g_sizeof(g: &Self::Graph) -> Option<usize>;
    fn ser_json(g: &Self::Graph) -> Result<String, String>;
    fn de_json(s: &[u8]) -> Result<Self::Graph, String>;
    fn ser_cbor(g: &Self::Graph) -> Result<Vec<u8>, String>;
    fn de_cbor(s: &[u8]) -> Result<Self::Graph, String>;
}

fn ek(e: gdsl::error::Error) -> ErrKind {
    match e {
        gdsl::error::Error::EdgeNotFound => ErrKind::EdgeNotFound,
        gdsl::error::Error::EdgeAlreadyExists => ErrKind::EdgeAlreadyExists,
    }
}

macro_rules! search_body {
    ($root:expr, $cfg:expr, $m:expr, $ctor:ident, $prio:tt, $tr:tt, $E:ty) => {{
        let cfg: &SearchCfg = $cfg;
        let tk: Key = cfg.target.unwrap_or(0);
        let (mut fe_in, mut fl_in, kind) = match $m {
            Meth::None => (None, None, 0u8),
            Meth::ForEach(f) => (Some(f), None, 1u8),
            Meth::Filter(f) => (None, Some(f), 2u8),
        };
        let mut fe = |e: &$E| {
            if let Some(f) = fe_in.as_mut() {
                f(e)
            }
        };
        let mut fl = |e: &$E| -> bool {
            match fl_in.as_mut() {
                Some(f) => f(e),
                None => true,
            }
        };
        let mut b = $root.$ctor();
        // the builder options are applied in one of four orders (chosen by the caller through OPT_ORDER):
        // 0 = prio, target, transpose, closure
        let mut fe_ref: Option<&mut dyn FnMut(&$E)> = Some(&mut fe);
        let mut fl_ref: Option<&mut dyn FnMut(&$E) -> bool> = Some(&mut fl);
        for &step in OPT_ORDERS[opt_order() as usize % OPT_ORDERS.len()] {
            match step {
                0 => {
                    search_body!(@prio b, cfg, $prio);
                }
                1 => {
                    if cfg.target.is_some() {
                        b = b.target(&tk);
                    }
                }
                2 => {
                    search_body!(@tr b, cfg, $tr);
                }
                _ => match kind {
                    1 => {
                        if let Some(f) = fe_ref.take() {
                            b = b.for_each(f)
                        }
                    }
                    2 => {
                        if let Some(f) = fl_ref.take() {
                            b = b.filter(f)
                        }
                    }
                    _ => {}
                },
            }
        }
        match cfg.term {
            Term::Search => SearchRes::Node(b.search()),
            Term::Path => {
                let first = b.search_path();
                if kind == 0 && repeat_check() {
                    // search_path(&mut self) may be called again on the same search object:
                    // without a closure the second answer must be the first one
                    let second = b.search_path();
                    let a: Option<Vec<Tri>> = first.as_ref().map(|p| p.iter_edges().map(|e| (*e.0.key(), *e.1.key(), e.2)).collect());
                    let c: Option<Vec<Tri>> = second.as_ref().map(|p| p.iter_edges().map(|e| (*e.0.key(), *e.1.key(), e.2)).collect());
                    if a != c {
                        panic!("{} first {:?} second {:?}", REPEATED_CALL_DIFFERS, a, c);
                    }
                }
                SearchRes::Path(wrap_path!(first))
            }
            Term::Cycle => SearchRes::Path(wrap_path!(b.search_cycle())),
        }
    }};
    (@prio $b:ident, $cfg:ident, yes) => {
        if $cfg.algo == Algo::PfsMax { $b = $b.max(); } else { $b = $b.min(); }
    };
    (@prio $b:ident, $cfg:ident, no) => {};
    (@tr $b:ident, $cfg:ident, yes) => {
        if $cfg.transposed { $b = $b.transpose(); }
    };
    (@tr $b:ident, $cfg:ident, no) => {
        assert!(!$cfg.transposed, "transpose() does not exist on undirected searches");
    };
}

macro_rules! twice_body {
    ($root:expr, $cfg:expr, $calls:expr, $between:expr, $ctor:ident, $prio:tt, $tr:tt) => {{
        let cfg: &SearchCfg = $cfg;
        let tk: Key = cfg.target.unwrap_or(0);
        let mut b = $root.$ctor();
        search_body!(@prio b, cfg, $prio);
        if cfg.target.is_some() {
            b = b.target(&tk);
        }
        search_body!(@tr b, cfg, $tr);
        let mut out = vec![];
        for i in 0..$calls {
            let r = b.search_path();
            out.push(wrap_path!(r));
            if i + 1 < $calls {
                $between();
            }
        }
        out
    }};
}
macro_rules! then_body {
    ($root:expr, $cfg:expr, $second:expr, $ctor:ident, $prio:tt, $tr:tt) => {{
        let cfg: &SearchCfg = $cfg;
        let tk: Key = cfg.target.unwrap_or(0);
        let mut b = $root.$ctor();
        search_body!(@prio b, cfg, $prio);
        if cfg.target.is_some() {
            b = b.target(&tk);
        }
        search_body!(@tr b, cfg, $tr);
        let _first = b.search_path();
        match $second {
            Term::Search => SearchRes::Node(b.search()),
            Term::Path => SearchRes::Path(wrap_path!(b.search_path())),
            Term::Cycle => SearchRes::Path(wrap_path!(b.search_cycle())),
        }
    }};
}
macro_rules! order_twice_body {
    ($root:expr, $cfg:expr, $calls:expr, $between:expr, $mk:expr, $tr:tt) => {{
        let cfg: &OrderCfg = $cfg;
        #[allow(unused_mut)]
        let mut o = $mk;
        order_body!(@tr o, cfg, $tr);
        let mut out = vec![];
        for i in 0..$calls {
            out.push(match cfg.term {
                OTerm::Nodes => OrderRes::Nodes(o.search_nodes()),
                OTerm::Edges => OrderRes::Edges(o.search_edges()),
            });
            if i + 1 < $calls {
                $between();
            }
        }
        out
    }};
}

macro_rules! order_body {
    ($root:expr, $cfg:expr, $m:expr, $E:ty, $mk:expr, $tr:tt) => {{
        let cfg: &OrderCfg = $cfg;
        let (mut fe_in, mut fl_in, kind) = match $m {
            Meth::None => (None, None, 0u8),
            Meth::ForEach(f) => (Some(f), None, 1u8),
            Meth::Filter(f) => (None, Some(f), 2u8),
        };
        let mut fe = |e: &$E| {
            if let Some(f) = fe_in.as_mut() {
                f(e)
            }
        };
        let mut fl = |e: &$E| -> bool {
            match fl_in.as_mut() {
                Some(f) => f(e),
                None => true,
            }
        };
        #[allow(unused_mut)]
        let mut o = $mk;
        let mut fe_ref: Option<&mut dyn FnMut(&$E)> = Some(&mut fe);
        let mut fl_ref: Option<&mut dyn FnMut(&$E) -> bool> = Some(&mut fl);
        for &step in OPT_ORDERS[opt_order() as usize % OPT_ORDERS.len()] {
            match step {
                2 => {
                    order_body!(@tr o, cfg, $tr);
                }
                3 => match kind {
                    1 => {
                        if let Some(f) = fe_ref.take() {
                            o = o.for_each(f)
                        }
                    }
                    2 => {
                        if let Some(f) = fl_ref.take() {
                            o = o.filter(f)
                        }
                    }
                    _ => {}
                },
                _ => {}
            }
        }
        match cfg.term {
            OTerm::Nodes => {
                let first = o.search_nodes();
                if kind == 0 && repeat_check() {
                    let second = o.search_nodes();
                    if first.iter().map(|n| *n.key()).collect::<Vec<Key>>() != second.iter().map(|n| *n.key()).collect::<Vec<Key>>() {
                        panic!("{} search_nodes", REPEATED_CALL_DIFFERS);
                    }
                }
                OrderRes::Nodes(first)
            }
            OTerm::Edges => {
                let first = o.search_edges();
                if kind == 0 && repeat_check() {
                    let second = o.search_edges();
                    if first.iter().map(|e| (*e.0.key(), *e.1.key(), e.2)).collect::<Vec<Tri>>() != second.iter().map(|e| (*e.0.key(), *e.1.key(), e.2)).collect::<Vec<Tri>>() {
                        panic!("{} search_edges", REPEATED_CALL_DIFFERS);
                    }
                }
                OrderRes::Edges(first)
            }
        }
    }};
    (@tr $o:ident, $cfg:ident, yes) => {
        if $cfg.transposed { $o = $o.transpose(); }
    };
    (@tr $o:ident, $cfg:ident, no) => {
        assert!(!$cfg.transposed, "transpose() does not exist on undirected orderings");
    };
}

macro_rules! common_items {
    ($m:ident) => {
        type Node = gdsl::$m::Node<Key, NVal, EV>;
        type Edge = gdsl::$m::Edge<Key, NVal, EV>;
        type Graph = gdsl::$m::Graph<Key, NVal, EV>;

        fn new_node(k: Key, v: NVal) -> Self::Node { gdsl::$m::Node::new(k, v) }
        fn key(n: &Self::Node) -> Key { *n.key() }
        fn prio(n: &Self::Node) -> i32 { n.value().p() }
        fn set_prio(n: &Self::Node, v: i32) { n.value().set_p(v) }
        fn prio_deref(n: &Self::Node) -> i32 { n.p() }
        fn addr(n: &Self::Node) -> usize { n.value() as *const NVal as usize }
        fn connect(a: &Self::Node, b: &Self::Node, e: EV) { a.connect(b, e) }
        fn try_connect(a: &Self::Node, b: &Self::Node, e: EV) -> Result<(), ErrKind> { a.try_connect(b, e).map_err(ek) }
        fn disconnect(a: &Self::Node, k: Key) -> Result<EV, ErrKind> { a.disconnect(&k).map_err(ek) }
        fn isolate(a: &Self::Node) { a.isolate() }
        fn is_orphan(n: &Self::Node) -> bool { n.is_orphan() }
        fn is_connected(n: &Self::Node, k: Key) -> bool { n.is_connected(&k) }
        fn node_sizeof(n: &Self::Node) -> usize { n.sizeof() }
        fn node_eq(a: &Self::Node, b: &Self::Node) -> bool { a == b }
        #[allow(clippy::partialeq_ne_impl)]
        fn node_ne(a: &Self::Node, b: &Self::Node) -> bool { a != b }
        fn node_cmp(a: &Self::Node, b: &Self::Node) -> Ordering { a.cmp(b) }
        fn node_partial_cmp(a: &Self::Node, b: &Self::Node) -> Option<Ordering> { a.partial_cmp(b) }
        fn node_rel(a: &Self::Node, b: &Self::Node) -> (bool, bool, bool, bool) { (a < b, a <= b, a > b, a >= b) }

        fn mk_edge(a: &Self::Node, b: &Self::Node, e: EV) -> Self::Edge { gdsl::$m::Edge(a.clone(), b.clone(), e) }
        fn e_src(e: &Self::Edge) -> &Self::Node { &e.0 }
        fn e_dst(e: &Self::Edge) -> &Self::Node { &e.1 }
        fn e_val(e: &Self::Edge) -> EV { e.2 }
        fn e_accessors(e: &Self::Edge) -> Tri { (*e.source().key(), *e.target().key(), *e.value()) }
        fn e_reverse(e: &Self::Edge) -> Self::Edge { e.reverse() }
        fn edge_eq(a: &Self::Edge, b: &Self::Edge) -> bool { a == b }

        fn g_new() -> Self::Graph { gdsl::$m::Graph::new() }
        fn g_default() -> Self::Graph { Default::default() }
        fn g_insert(g: &mut Self::Graph, n: Self::Node) -> bool { g.insert(n) }
        fn g_get(g: &Self::Graph, k: Key) -> Option<Self::Node> { g.get(&k) }
        fn g_index(g: &Self::Graph, k: Key) -> Self::Node { g[k].clone() }
        fn g_contains(g: &Self::Graph, k: Key) -> bool { g.contains(&k) }
        fn g_len(g: &Self::Graph) -> usize { g.len() }
        fn g_is_empty(g: &Self::Graph) -> bool { g.is_empty() }
        fn g_remove(g: &mut Self::Graph, k: Key) -> Option<Self::Node> { g.remove(&k) }
        fn g_to_vec(g: &Self::Graph) -> Vec<Self::Node> { g.to_vec() }
        fn g_iter(g: &Self::Graph) -> Vec<(Key, Self::Node)> { g.iter().map(|(k, n)| (*k, n.clone())).collect() }
        fn g_orphans(g: &Self::Graph) -> Vec<Self::Node> { g.orphans() }
        fn g_to_dot(g: &Self::Graph) -> String { g.to_dot() }
        fn ser_json(g: &Self::Graph) -> Result<String, String> { serde_json::to_string(g).map_err(|e| e.to_string()) }
        fn de_json(s: &[u8]) -> Result<Self::Graph, String> { serde_json::from_slice(s).map_err(|e| e.to_string()) }
        fn ser_cbor(g: &Self::Graph) -> Result<Vec<u8>, String> { serde_cbor::to_vec(g).map_err(|e| e.to_string()) }
        fn de_cbor(s: &[u8]) -> Result<Self::Graph, String> { serde_cbor::from_slice(s).map_err(|e| e.to_string()) }
    };
}

macro_rules! dot_attr_yes {
    () => {
        const HAS_DOT_ATTR: bool = true;
        fn g_to_dot_attr(
            g: &Self::Graph,
            gattr: &dyn Fn(&Self::Graph) -> Attrs,
            nattr: &dyn Fn(&Self::Node) -> Attrs,
            eattr: &dyn Fn(&Self::Node, &Self::Node, &EV) -> Attrs,
        ) -> Option<String> {
            Some(g.to_dot_with_attr(gattr, nattr, eattr))
        }
        fn g_sizeof(g: &Self::Graph) -> Option<usize> { Some(g.sizeof()) }
    };
}
macro_rules! dot_attr_no {
    () => {
        const HAS_DOT_ATTR: bool = false;
        fn g_to_dot_attr(
            _g: &Self::Graph,
            _gattr: &dyn Fn(&Self::Graph) -> Attrs,
            _nattr: &dyn Fn(&Self::Node) -> Attrs,
            _eattr: &dyn Fn(&Self::Node, &Self::Node, &EV) -> Attrs,
        ) -> Option<String> {
            None
        }
        fn g_sizeof(_g: &Self::Graph) -> Option<usize> { None }
    };
}

/// The library's `Path` type is not nameable from outside (`algo` is a
/// private module), so paths are carried as trait objects built around the
/// inferred type together with a table of accessors.
pub trait PathObj<F: Flavour + ?Sized> {
    fn len(&self) -> usize;
    fn edges(&self) -> Vec<F::Edge>;
    fn iter_edges(&self) -> Vec<F::Edge>;
    fn nodes(&self) -> Vec<F::Node>;
    fn iter_nodes(&self) -> Vec<F::Node>;
    fn first_edge(&self) -> Option<F::Edge>;
    fn last_edge(&self) -> Option<F::Edge>;
    fn first_node(&self) -> Option<F::Node>;
    fn last_node(&self) -> Option<F::Node>;
    fn index(&self, i: usize) -> F::Edge;
    /// the path's iterators driven through the provided Iterator methods (nth, skip, step_by, last, count,
    /// size_hint) against the sequence obtained by next(): a description of the first disagreement
    fn adapters(&self) -> Option<String>;
}
pub type PathB<F> = Box<dyn PathObj<F>>;

pub struct PathW<P, F: Flavour + ?Sized> {
    p: P,
    len: fn(&P) -> usize,
    edges: fn(&P) -> Vec<F::Edge>,
    iter_edges: fn(&P) -> Vec<F::Edge>,
    nodes: fn(&P) -> Vec<F::Node>,
    iter_nodes: fn(&P) -> Vec<F::Node>,
    first_edge: fn(&P) -> Option<F::Edge>,
    last_edge: fn(&P) -> Option<F::Edge>,
    first_node: fn(&P) -> Option<F::Node>,
    last_node: fn(&P) -> Option<F::Node>,
    index: fn(&P, usize) -> F::Edge,
    adapters: fn(&P) -> Option<String>,
}
impl<P, F: Flavour + ?Sized> PathObj<F> for PathW<P, F> {
    fn adapters(&self) -> Option<String> { (self.adapters)(&self.p) }
    fn len(&self) -> usize { (self.len)(&self.p) }
    fn edges(&self) -> Vec<F::Edge> { (self.edges)(&self.p) }
    fn iter_edges(&self) -> Vec<F::Edge> { (self.iter_edges)(&self.p) }
    fn nodes(&self) -> Vec<F::Node> { (self.nodes)(&self.p) }
    fn iter_nodes(&self) -> Vec<F::Node> { (self.iter_nodes)(&self.p) }
    fn first_edge(&self) -> Option<F::Edge> { (self.first_edge)(&self.p) }
    fn last_edge(&self) -> Option<F::Edge> { (self.last_edge)(&self.p) }
    fn first_node(&self) -> Option<F::Node> { (self.first_node)(&self.p) }
    fn last_node(&self) -> Option<F::Node> { (self.last_node)(&self.p) }
    fn index(&self, i: usize) -> F::Edge { (self.index)(&self.p, i) }
}
#[allow(clippy::too_many_arguments)]
pub fn mk_path<P: 'static, F: Flavour + ?Sized>(
    p: P,
    len: fn(&P) -> usize,
    edges: fn(&P) -> Vec<F::Edge>,
    iter_edges: fn(&P) -> Vec<F::Edge>,
    nodes: fn(&P) -> Vec<F::Node>,
    iter_nodes: fn(&P) -> Vec<F::Node>,
    first_edge: fn(&P) -> Option<F::Edge>,
    last_edge: fn(&P) -> Option<F::Edge>,
    first_node: fn(&P) -> Option<F::Node>,
    last_node: fn(&P) -> Option<F::Node>,
    index: fn(&P, usize) -> F::Edge,
    adapters: fn(&P) -> Option<String>,
) -> PathB<F> {
    Box::new(PathW::<P, F> { p, len, edges, iter_edges, nodes, iter_nodes, first_edge, last_edge, first_node, last_node, index, adapters })
}
macro_rules! wrap_path {
    ($opt:expr) => {
        $opt.map(|p| {
            mk_path::<_, Self>(
                p,
                |p| p.len(),
                |p| p.to_vec_edges(),
                |p| p.iter_edges().collect(),
                |p| p.to_vec_nodes(),
                |p| p.iter_nodes().collect(),
                |p| p.first_edge().cloned(),
                |p| p.last_edge().cloned(),
                |p| p.first_node().cloned(),
                |p| p.last_node().cloned(),
                |p, i| p[i].clone(),
                |p| {
                    iter_conformance("iter_nodes()", &|| p.iter_nodes(), &|n| *n.key())
                        .or_else(|| iter_conformance("iter_edges()", &|| p.iter_edges(), &|e| (*e.0.key(), *e.1.key(), e.2)))
                },
            )
        })
    };
}

macro_rules! directed_flavour {
    ($t:ident, $m:ident, $name:literal, $sync:expr) => {
        pub struct $t;
        impl Flavour for $t {
            const NAME: &'static str = $name;
            const DIRECTED: bool = true;
            const SYNC: bool = $sync;
            common_items!($m);
            dot_attr_yes!();
            fn out_list(n: &Self::Node) -> Vec<(Key, EV)> { n.iter_out().map(|e| (*e.1.key(), e.2)).collect() }
            fn in_list(n: &Self::Node) -> Vec<(Key, EV)> { n.iter_in().map(|e| (*e.0.key(), e.2)).collect() }
            fn edges(n: &Self::Node, kind: IterKind) -> Vec<Self::Edge> {
                match kind {
                    IterKind::Out => n.iter_out().collect(),
                    IterKind::In => n.iter_in().collect(),
                    IterKind::IntoIter => { let mut v = vec![]; for e in n { v.push(e); } v }
                }
            }
            fn iterate(n: &Self::Node, kind: IterKind, f: &mut dyn FnMut(&Self::Edge) -> bool) {
                match kind {
                    IterKind::Out => { // (a loop whose list shrank below its position is finished with count(): no panic, nothing invented)
                        let mut it = n.iter_out(); check_hint(it.size_hint()); let mut yields = 0usize;
                        while let Some(e) = it.next() { yields += 1; if !f(&e) { break; } check_hint(it.size_hint());
                            let len = n.out_degree(); if len < yields && (len + yields) % 2 == 0 { let rest = it.count(); assert!(rest <= len, "count() = {} on an edge iterator whose list has {} entries (after {} yields)", rest, len, yields); break; } } }
                    IterKind::In => { // (a loop whose list shrank below its position is finished with count(): no panic, nothing invented)
                        let mut it = n.iter_in(); check_hint(it.size_hint()); let mut yields = 0usize;
                        while let Some(e) = it.next() { yields += 1; if !f(&e) { break; } check_hint(it.size_hint());
                            let len = n.in_degree(); if len < yields && (len + yields) % 2 == 0 { let rest = it.count(); assert!(rest <= len, "count() = {} on an edge iterator whose list has {} entries (after {} yields)", rest, len, yields); break; } } }
                    IterKind::IntoIter => { for e in n { if !f(&e) { break; } } }
                }
            }
            fn iter_adapters_check(n: &Self::Node) -> Option<String> {
                iter_conformance("iter_out()", &|| n.iter_out(), &|e| (*e.0.key(), *e.1.key(), e.2))
                    .or_else(|| iter_conformance("iter_in()", &|| n.iter_in(), &|e| (*e.0.key(), *e.1.key(), e.2)))
                    .or_else(|| iter_conformance("(&node).into_iter()", &|| n.into_iter(), &|e| (*e.0.key(), *e.1.key(), e.2)))
            }
            fn iterate_adapters(n: &Self::Node, kind: IterKind, f: &mut dyn FnMut(&Self::Edge) -> bool) {
                match kind {
                    IterKind::Out => { let v: Vec<bool> = n.iter_out().map(|e| f(&e)).take_while(|go| *go).collect(); std::hint::black_box(v); }
                    IterKind::In => { let v: Vec<bool> = n.iter_in().map(|e| f(&e)).collect(); std::hint::black_box(v); }
                    IterKind::IntoIter => { let mut it = n.into_iter(); if let Some(e) = it.next() { if f(&e) { let (a, b): (Vec<bool>, Vec<u8>) = it.map(|e| (f(&e), 0u8)).unzip(); std::hint::black_box((a, b)); } } }
                }
            }
            fn out_degree(n: &Self::Node) -> usize { n.out_degree() }
            fn in_degree(n: &Self::Node) -> usize { n.in_degree() }
            fn is_root(n: &Self::Node) -> bool { n.is_root() }
            fn is_leaf(n: &Self::Node) -> bool { n.is_leaf() }
            fn find_out(n: &Self::Node, k: Key) -> Option<Self::Node> { n.find_outbound(&k) }
            fn find_in(n: &Self::Node, k: Key) -> Option<Self::Node> { n.find_inbound(&k) }
            fn search(root: &Self::Node, cfg: &SearchCfg, m: Meth<Self>) -> SearchRes<Self> {
                let r = match cfg.algo {
                    Algo::Bfs => search_body!(root, cfg, m, bfs, no, yes, Self::Edge),
                    Algo::Dfs => search_body!(root, cfg, m, dfs, no, yes, Self::Edge),
                    _ => search_body!(root, cfg, m, pfs, yes, yes, Self::Edge),
                };
                r
            }
            fn order(root: &Self::Node, cfg: &OrderCfg, m: Meth<Self>) -> OrderRes<Self> {
                order_body!(root, cfg, m, Self::Edge, if cfg.ord == Ordk::Pre { root.preorder() } else { root.postorder() }, yes)
            }
            fn search_path_twice(root: &Self::Node, cfg: &SearchCfg, calls: usize, between: &mut dyn FnMut()) -> Vec<Option<PathB<Self>>> {
                match cfg.algo {
                    Algo::Bfs => twice_body!(root, cfg, calls, between, bfs, no, yes),
                    Algo::Dfs => twice_body!(root, cfg, calls, between, dfs, no, yes),
                    _ => twice_body!(root, cfg, calls, between, pfs, yes, yes),
                }
            }
            fn order_twice(root: &Self::Node, cfg: &OrderCfg, calls: usize, between: &mut dyn FnMut()) -> Vec<OrderRes<Self>> {
                order_twice_body!(root, cfg, calls, between, if cfg.ord == Ordk::Pre { root.preorder() } else { root.postorder() }, yes)
            }
            fn search_path_then(root: &Self::Node, cfg: &SearchCfg, second: Term) -> SearchRes<Self> {
                match cfg.algo {
                    Algo::Bfs => then_body!(root, cfg, second, bfs, no, yes),
                    Algo::Dfs => then_body!(root, cfg, second, dfs, no, yes),
                    _ => then_body!(root, cfg, second, pfs, yes, yes),
                }
            }
            fn g_index_ref(g: &Self::Graph, k: Key) -> Self::Node { g[&k].clone() }
            fn g_roots(g: &Self::Graph) -> Vec<Self::Node> { g.roots() }
            fn g_leaves(g: &Self::Graph) -> Vec<Self::Node> { g.leaves() }
            fn g_scc(g: &Self::Graph) -> Vec<Vec<Self::Node>> { g.scc() }
        }
    };
}

macro_rules! undirected_flavour {
    ($t:ident, $m:ident, $name:literal, $sync:expr, $dot:ident) => {
        pub struct $t;
        impl Flavour for $t {
            const NAME: &'static str = $name;
            const DIRECTED: bool = false;
            const SYNC: bool = $sync;
            common_items!($m);
            $dot!();
            fn out_list(n: &Self::Node) -> Vec<(Key, EV)> { n.iter().map(|e| (*e.1.key(), e.2)).collect() }
            fn in_list(_n: &Self::Node) -> Vec<(Key, EV)> { vec![] }
            fn edges(n: &Self::Node, kind: IterKind) -> Vec<Self::Edge> {
                match kind {
                    IterKind::Out => n.iter().collect(),
                    IterKind::In => vec![],
                    IterKind::IntoIter => { let mut v = vec![]; for e in n { v.push(e); } v }
                }
            }
            fn iterate(n: &Self::Node, kind: IterKind, f: &mut dyn FnMut(&Self::Edge) -> bool) {
                match kind {
                    IterKind::Out => { // (a loop whose list shrank below its position is finished with count(): no panic, nothing invented)
                        let mut it = n.iter(); check_hint(it.size_hint()); let mut yields = 0usize;
                        while let Some(e) = it.next() { yields += 1; if !f(&e) { break; } check_hint(it.size_hint());
                            let len = n.degree(); if len < yields && (len + yields) % 2 == 0 { let rest = it.count(); assert!(rest <= len, "count() = {} on an edge iterator whose list has {} entries (after {} yields)", rest, len, yields); break; } } }
                    IterKind::In => {}
                    IterKind::IntoIter => { for e in n { if !f(&e) { break; } } }
                }
            }
            fn iter_adapters_check(n: &Self::Node) -> Option<String> {
                iter_conformance("iter()", &|| n.iter(), &|e| (*e.0.key(), *e.1.key(), e.2))
                    .or_else(|| iter_conformance("(&node).into_iter()", &|| n.into_iter(), &|e| (*e.0.key(), *e.1.key(), e.2)))
            }
            fn iterate_adapters(n: &Self::Node, kind: IterKind, f: &mut dyn FnMut(&Self::Edge) -> bool) {
                match kind {
                    IterKind::Out => { let v: Vec<bool> = n.iter().map(|e| f(&e)).take_while(|go| *go).collect(); std::hint::black_box(v); }
                    IterKind::In => {}
                    IterKind::IntoIter => { let mut it = n.into_iter(); if let Some(e) = it.next() { if f(&e) { let (a, b): (Vec<bool>, Vec<u8>) = it.map(|e| (f(&e), 0u8)).unzip(); std::hint::black_box((a, b)); } } }
                }
            }
            fn out_degree(n: &Self::Node) -> usize { n.degree() }
            fn in_degree(_n: &Self::Node) -> usize { 0 }
            fn is_root(_n: &Self::Node) -> bool { false }
            fn is_leaf(_n: &Self::Node) -> bool { false }
            fn find_out(n: &Self::Node, k: Key) -> Option<Self::Node> { n.find_adjacent(&k) }
            fn find_in(_n: &Self::Node, _k: Key) -> Option<Self::Node> { None }
            fn search(root: &Self::Node, cfg: &SearchCfg, m: Meth<Self>) -> SearchRes<Self> {
                let r = match cfg.algo {
                    Algo::Bfs => search_body!(root, cfg, m, bfs, no, no, Self::Edge),
                    Algo::Dfs => search_body!(root, cfg, m, dfs, no, no, Self::Edge),
                    _ => search_body!(root, cfg, m, pfs, yes, no, Self::Edge),
                };
                r
            }
            fn order(root: &Self::Node, cfg: &OrderCfg, m: Meth<Self>) -> OrderRes<Self> {
                order_body!(root, cfg, m, Self::Edge, if cfg.ord == Ordk::Pre { root.order().pre() } else { root.order().post() }, no)
            }
            fn search_path_twice(root: &Self::Node, cfg: &SearchCfg, calls: usize, between: &mut dyn FnMut()) -> Vec<Option<PathB<Self>>> {
                match cfg.algo {
                    Algo::Bfs => twice_body!(root, cfg, calls, between, bfs, no, no),
                    Algo::Dfs => twice_body!(root, cfg, calls, between, dfs, no, no),
                    _ => twice_body!(root, cfg, calls, between, pfs, yes, no),
                }
            }
            fn order_twice(root: &Self::Node, cfg: &OrderCfg, calls: usize, between: &mut dyn FnMut()) -> Vec<OrderRes<Self>> {
                order_twice_body!(root, cfg, calls, between, if cfg.ord == Ordk::Pre { root.order().pre() } else { root.order().post() }, no)
            }
            fn search_path_then(root: &Self::Node, cfg: &SearchCfg, second: Term) -> SearchRes<Self> {
                match cfg.algo {
                    Algo::Bfs => then_body!(root, cfg, second, bfs, no, no),
                    Algo::Dfs => then_body!(root, cfg, second, dfs, no, no),
                    _ => then_body!(root, cfg, second, pfs, yes, no),
                }
            }
            fn g_index_ref(g: &Self::Graph, k: Key) -> Self::Node { g[k].clone() }
            fn g_roots(_g: &Self::Graph) -> Vec<Self::Node> { vec![] }
            fn g_leaves(_g: &Self::Graph) -> Vec<Self::Node> { vec![] }
            fn g_scc(_g: &Self::Graph) -> Vec<Vec<Self::Node>> { vec![] }
        }
    };
}

directed_flavour!(Di, digraph, "digraph", false);
directed_flavour!(SDi, sync_digraph, "sync_digraph", true);
undirected_flavour!(Un, ungraph, "ungraph", false, dot_attr_yes);
undirected_flavour!(SUn, sync_ungraph, "sync_ungraph", true, dot_attr_no);
