//! Payload types shared by every check: key, node value (priority + drop
//! tracker), edge value.
use serde::{Deserialize, Deserializer, Serialize, Serializer};
use std::collections::BTreeMap;
use std::fmt;
use std::sync::{Arc, Mutex};

pub type Key = u32;
pub type EV = u32;
/// An edge as the oracles see it: (source key, target key, value).
pub type Tri = (Key, Key, EV);

/// Counts live instances and completed drops of node values per id.
#[derive(Default, Debug)]
pub struct Registry {
    inner: Mutex<RegInner>,
}
#[derive(Default, Debug)]
struct RegInner {
    live: BTreeMap<u32, i64>,
    drops: BTreeMap<u32, u64>,
}
impl Registry {
    pub fn new() -> Arc<Registry> {
        Arc::new(Registry::default())
    }
    pub fn live(&self, id: u32) -> i64 {
        *self.inner.lock().unwrap().live.get(&id).unwrap_or(&0)
    }
    pub fn drops(&self, id: u32) -> u64 {
        *self.inner.lock().unwrap().drops.get(&id).unwrap_or(&0)
    }
    pub fn total_live(&self) -> i64 {
        self.inner.lock().unwrap().live.values().sum()
    }
    fn inc(&self, id: u32) {
        *self.inner.lock().unwrap().live.entry(id).or_insert(0) += 1;
    }
    fn dec(&self, id: u32) {
        let mut g = match self.inner.lock() {
            Ok(g) => g,
            Err(p) => p.into_inner(),
        };
        *g.live.entry(id).or_insert(0) -= 1;
        *g.drops.entry(id).or_insert(0) += 1;
    }
}

/// Node value: `p` is the priority (the only thing comparisons look at),
/// `id` identifies the allocation for the drop registry.
pub struct NVal {
    /// interior-mutable (the crate's Dijkstra idiom updates priorities from a for_each closure); atomic so that
    /// the sync flavours can share the value between threads
    p: std::sync::atomic::AtomicI32,
    pub id: u32,
    reg: Option<Arc<Registry>>,
}
impl NVal {
    pub fn plain(p: i32) -> NVal {
        NVal { p: p.into(), id: u32::MAX, reg: None }
    }
    pub fn p(&self) -> i32 {
        self.p.load(std::sync::atomic::Ordering::Relaxed)
    }
    pub fn set_p(&self, v: i32) {
        self.p.store(v, std::sync::atomic::Ordering::Relaxed)
    }
    pub fn tracked(p: i32, id: u32, reg: &Arc<Registry>) -> NVal {
        reg.inc(id);
        NVal { p: p.into(), id, reg: Some(reg.clone()) }
    }
}
impl Clone for NVal {
    fn clone(&self) -> NVal {
        if let Some(r) = &self.reg {
            r.inc(self.id);
        }
        NVal { p: self.p().into(), id: self.id, reg: self.reg.clone() }
    }
}
impl Drop for NVal {
    fn drop(&mut self) {
        if let Some(r) = &self.reg {
            r.dec(self.id);
        }
    }
}
impl PartialEq for NVal {
    fn eq(&self, o: &NVal) -> bool {
        self.p() == o.p()
    }
}
impl Eq for NVal {}
impl PartialOrd for NVal {
    fn partial_cmp(&self, o: &NVal) -> Option<std::cmp::Ordering> {
        Some(self.p().cmp(&o.p()))
    }
}
impl Ord for NVal {
    fn cmp(&self, o: &NVal) -> std::cmp::Ordering {
        self.p().cmp(&o.p())
    }
}
impl fmt::Display for NVal {
    fn fmt(&self, f: &mut fmt::Formatter) -> fmt::Result {
        write!(f, "{}", self.p())
    }
}
impl fmt::Debug for NVal {
    fn fmt(&self, f: &mut fmt::Formatter) -> fmt::Result {
        write!(f, "NVal({})", self.p())
    }
}
impl Serialize for NVal {
    fn serialize<S: Serializer>(&self, s: S) -> Result<S::Ok, S::Error> {
        s.serialize_i32(self.p())
    }
}
impl<'de> Deserialize<'de> for NVal {
    fn deserialize<D: Deserializer<'de>>(d: D) -> Result<NVal, D::Error> {
        Ok(NVal::plain(i32::deserialize(d)?))
    }
}

#[derive(Clone, Copy, Debug, PartialEq, Eq, PartialOrd, Ord, Hash, Serialize, Deserialize)]
pub enum ErrKind {
    EdgeNotFound,
    EdgeAlreadyExists,
}

pub fn panic_msg(e: Box<dyn std::any::Any + Send>) -> String {
    e.downcast_ref::<String>()
        .cloned()
        .or_else(|| e.downcast_ref::<&str>().map(|s| s.to_string()))
        .unwrap_or_else(|| "<non-string panic payload>".into())
}
