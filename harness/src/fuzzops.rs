//! Byte-level entry point for the coverage-guided `ops` fuzz target: the
//! input is decoded into one of the structured case types and judged by the
//! same oracles as the proptest drivers. A finding panics (= libFuzzer crash)
//! with the signature in the message.
use crate::c20::{self, LCase, LoopKind, SOp, Who};
use crate::contmap::{self, CCase, COp, Via};
use crate::ctx::Stats;
use crate::drops::{self, DCase, DOp, ResKind};
use crate::hist::{self, HOp, HistCase, Prov, Which, PROVS};
use crate::model::*;
use crate::search::MethSpec;
use crate::searchrun::{self, SCase};
use crate::types::*;
use std::collections::BTreeSet;

struct Rd<'a> {
    d: &'a [u8],
    i: usize,
}
impl<'a> Rd<'a> {
    fn u8(&mut self) -> u8 {
        let b = self.d.get(self.i).cloned().unwrap_or(0);
        self.i += 1;
        b
    }
    fn u16(&mut self) -> u16 {
        let a = self.u8() as u16;
        let b = self.u8() as u16;
        a << 8 | b
    }
    fn more(&self) -> bool {
        self.i < self.d.len()
    }
}

fn graph(r: &mut Rd) -> GCase {
    let n = 1 + (r.u8() % 6) as usize;
    let m = (r.u8() % 10) as usize;
    let mut edges = vec![];
    for i in 0..m {
        let b = r.u8();
        let (u, v) = ((b >> 4) as usize % n, (b & 15) as usize % n);
        edges.push((u as Key, v as Key, if b & 128 != 0 { (i % 2) as EV } else { 100 + i as EV }));
    }
    let pb = r.u8();
    GCase { n, prio: (0..n).map(|i| ((pb >> (i % 8)) & 1) as i32 + (i as i32 % 2)).collect(), edges }
}

fn fail_if(_st: &Stats, _what: &str) {}

/// the property the campaign is restricted to (env GV_OPS_PROP), if any
pub fn prop_filter() -> Option<String> {
    static P: std::sync::OnceLock<Option<String>> = std::sync::OnceLock::new();
    P.get_or_init(|| std::env::var("GV_OPS_PROP").ok().filter(|s| !s.is_empty())).clone()
}

/// fuzz entry point: a finding panics (= libFuzzer crash)
pub fn check_bytes(data: &[u8]) {
    let mut st = Stats::new();
    let filter = prop_filter();
    run_bytes(filter.as_deref(), data, &mut st);
    if let Some((sig, (f, _))) = st.findings.iter().next() {
        panic!("{} ORACLE :: {} :: {}", f.property, sig, crate::ctx::trunc(&f.detail, 400));
    }
}

/// branch of the decoder that serves a property
fn branch_of(prop: &str) -> u8 {
    match prop {
        "C01" | "C02" | "C03" => 0,
        "C18" => 1,
        "C19" => 2,
        "C20" => 3,
        _ => 4,
    }
}

/// decodes `data` into a structured case and runs the oracles of `filter` (or of every property) on it
pub fn run_bytes(filter: Option<&str>, data: &[u8], st: &mut Stats) {
    if data.len() < 2 {
        return;
    }
    let mut r = Rd { d: data, i: 0 };
    let mut st_local = Stats::new();
    let st_ref = &mut st_local;
    let first = r.u8();
    let branch = match filter {
        Some(p) => branch_of(p),
        None => first % 5,
    };
    run_branch(filter, branch, &mut r, data, st_ref);
    st.merge(st_local);
}

fn run_branch(filter: Option<&str>, branch: u8, r: &mut Rd, data: &[u8], st: &mut Stats) {
    let mut r = Rd { d: r.d, i: r.i };
    let st = &mut *st;
    match branch {
        0 => {
            let n = 2 + (r.u8() % 6) as usize;
            let mut ops = vec![];
            while r.more() && ops.len() < 64 {
                let k = r.u8();
                let kind = match k % 10 {
                    0..=3 => OpKind::Connect,
                    4..=5 => OpKind::TryConnect,
                    6..=8 => OpKind::Disconnect,
                    _ => OpKind::Isolate,
                };
                let b = r.u8();
                let (u, v) = ((b >> 4) as usize % n, (b & 15) as usize % n);
                let p = r.u8();
                let guide = if k & 128 != 0 && kind != OpKind::Isolate { Some(r.u16()) } else { None };
                ops.push(HOp { kind, u, v: if kind == OpKind::Isolate { u } else { v }, e: (p >> 6) as EV, pu: PROVS[(p & 7) as usize], pv: if kind == OpKind::Isolate { Prov::Orig } else { PROVS[((p >> 3) & 7) as usize] }, guide });
            }
            let c = HistCase { n, ops, prelude: vec![] };
            for w in [Which::C03, Which::C01, Which::C02] {
                if filter.map_or(true, |f| f == w.id()) {
                    hist::run_all(&c, w, st, false, None);
                }
            }
            fail_if(st, "history");
        }
        1 => {
            let n = 1 + (r.u8() % 6) as usize;
            let mut ops = vec![];
            while r.more() && ops.len() < 64 {
                let t = r.u8();
                let a = r.u8();
                let k = (a as usize % n) as Key;
                let kx = (a as usize % (n + 2)) as Key;
                let k2 = ((a >> 4) as usize % n) as Key;
                ops.push(match t % 18 {
                    0 | 1 | 2 => COp::InsertPrimary(k),
                    3 => COp::InsertImpostor(k),
                    4 => COp::Get(kx),
                    5 => COp::Index(k),
                    6 => COp::Contains(kx),
                    7 => COp::Len,
                    8 | 9 => COp::Remove(kx),
                    10 => COp::ToVec,
                    11 => COp::Iter,
                    12 => COp::Views,
                    13 => COp::ToDot,
                    14 => COp::ToDotAttr(a % 12),
                    15 => COp::Connect(k, k2, (t >> 6) as EV, [Via::Direct, Via::Get, Via::Index, Via::Iter, Via::ToVec][(t as usize >> 5) % 5]),
                    16 if t & 64 != 0 => COp::ConnectBurst(k, 5 + (a >> 3)),
                    16 => COp::Disconnect(k, k2),
                    _ => COp::Isolate(k),
                });
            }
            contmap::run_all(&CCase { n, ops, use_default: data.len() % 2 == 0 }, st, false, None);
            fail_if(st, "container");
        }
        2 => {
            let mut ops = vec![];
            while r.more() && ops.len() < 80 {
                let t = r.u8();
                let (a, b) = (r.u16(), r.u16());
                let kind = [ResKind::Path, ResKind::Found, ResKind::OrderNodes, ResKind::OrderEdges, ResKind::IterEdges, ResKind::Cycle, ResKind::ToVec][(t as usize >> 4) % 7];
                ops.push(match t % 16 {
                    0 | 1 | 2 => DOp::NewNode,
                    3 => DOp::CloneHandle(a),
                    4 | 5 | 6 => DOp::Connect(a, b),
                    7 => DOp::TryConnect(a, b),
                    8 => DOp::Lookup(a, b),
                    9 => DOp::Disconnect(a, b),
                    10 => DOp::Isolate(a),
                    11 => DOp::GraphNew,
                    12 => DOp::GraphInsert(a, b),
                    13 => DOp::Search(a, kind),
                    14 => DOp::Use(a),
                    _ => DOp::Drop(a),
                });
            }
            let fd: Vec<u16> = data.iter().rev().take(40).map(|b| (*b as u16) << 8).collect();
            drops::run_all(&DCase { ops, final_drops: fd }, st, false, None);
            fail_if(st, "drops");
        }
        3 => {
            let g = graph(&mut r);
            let kinds = c20::loop_kinds();
            let (kind, cell): (LoopKind, _) = kinds[r.u16() as usize % kinds.len()].clone();
            let root = (r.u8() as usize % g.n) as Key;
            let who = |b: u8| match b % 4 {
                0 => Who::Src,
                1 => Who::Dst,
                2 => Who::Root,
                _ => Who::Abs((b >> 2) as Key % 8),
            };
            let mut script = vec![];
            while r.more() && script.len() < 6 {
                let t = r.u8();
                let (a, b) = (r.u8(), r.u8());
                let op = match t % 10 {
                    0 | 1 => SOp::Connect(who(a), who(b), 50 + (t >> 6) as EV),
                    2 => SOp::TryConnect(who(a), who(b), 52),
                    3 | 4 => SOp::Disconnect(who(a), who(b)),
                    5 => SOp::Isolate(who(a)),
                    6 => SOp::Query(who(a)),
                    7 => SOp::Nested(who(a), who(b)),
                    8 => SOp::NestedLoopDisconnect(who(a)),
                    _ => SOp::Container(who(a)),
                };
                script.push(((t >> 4) as usize % 6, op));
            }
            c20::run_all(&LCase { g, root, kind, cell, script }, st, false, None);
            fail_if(st, "loop");
        }
        _ => {
            let g = graph(&mut r);
            let root = (r.u8() as usize % g.n) as Key;
            let target = (r.u8() as usize % (g.n + 1)) as Key;
            let bits = r.u16();
            let all = ["C04", "C05", "C06", "C07", "C08", "C09", "C10"];
            // one property per input (the filter's, or chosen by a byte): keeps an execution cheap
            let chosen = match filter {
                Some(f) if all.contains(&f) => f,
                _ => all[(bits as usize >> 3) % all.len()],
            };
            for prop in [chosen] {
                for directed in [true, false] {
                    if prop == "C08" && !directed {
                        continue;
                    }
                    for cell in searchrun::cells_for(prop, directed) {
                        let cell = searchrun::with_target(&cell, Some(target));
                        let view = g.view(directed, cell.transposed());
                        let mut rej = BTreeSet::new();
                        let mut i = 0;
                        for s in 0..view.n {
                            for &(t, e) in &view.inc[s] {
                                if bits >> (i % 16) & 1 == 1 {
                                    rej.insert((s as Key, t, e));
                                }
                                i += 1;
                            }
                        }
                        for m in [MethSpec::ForEach, MethSpec::Filter(rej), MethSpec::None] {
                            let c = SCase { g: g.clone(), root, cell: cell.clone(), meth: m };
                            if directed {
                                searchrun::run_case::<crate::flavour::Di>(prop, &c, st, false);
                                searchrun::run_case::<crate::flavour::SDi>(prop, &c, st, false);
                            } else {
                                searchrun::run_case::<crate::flavour::Un>(prop, &c, st, false);
                                searchrun::run_case::<crate::flavour::SUn>(prop, &c, st, false);
                            }
                        }
                    }
                }
            }
            fail_if(st, "search");
        }
    }
}
