//! C19: edges never own nodes — no leaks, no premature release. Histories
//! of construction, connection, search and drop, observed through
//! drop-counting node values.
use crate::ctx::*;
use crate::flavour::*;
use crate::hook;
use crate::model::*;
use crate::pt;
use crate::types::*;
use proptest::prelude::*;
use serde::{Deserialize, Serialize};
use serde_json::{json, Value};
use std::collections::{BTreeMap, BTreeSet};
use std::panic::{catch_unwind, AssertUnwindSafe};
use std::sync::Arc;

#[derive(Clone, Copy, Debug, PartialEq, Eq, Hash, Serialize, Deserialize)]
pub enum ResKind {
    /// bfs/dfs search_path to some reachable node
    Path,
    /// search() result node
    Found,
    /// preorder / order().pre() search_nodes
    OrderNodes,
    /// postorder search_edges
    OrderEdges,
    /// collected edges of iter_out / iter
    IterEdges,
    /// search_cycle
    Cycle,
    /// Graph::to_vec
    ToVec,
}

/// operands are raw u16 mapped onto the live slots of the wanted kind
#[derive(Clone, Copy, Debug, PartialEq, Eq, Hash, Serialize, Deserialize)]
pub enum DOp {
    NewNode,
    CloneHandle(u16),
    Connect(u16, u16),
    /// `count` connects in a row (long adjacency lists)
    ConnectBurst(u16, u16, u16),
    TryConnect(u16, u16),
    /// is_connected / find_outbound / find_inbound (find_adjacent); results dropped at once
    Lookup(u16, u16),
    /// keep the handle returned by a successful find
    LookupKeep(u16, u16),
    Disconnect(u16, u16),
    Isolate(u16),
    GraphNew,
    GraphInsert(u16, u16),
    GraphRemoveKeep(u16, u16),
    GraphRemoveDrop(u16, u16),
    GraphGet(u16, u16),
    Search(u16, ResKind),
    Use(u16),
    Drop(u16),
}

#[derive(Clone, Debug, PartialEq, Eq, Hash, Serialize, Deserialize)]
pub struct DCase {
    pub ops: Vec<DOp>,
    /// order in which the remaining slots are dropped at the end (raw, mapped)
    pub final_drops: Vec<u16>,
}

enum Held<F: Flavour> {
    Node(F::Node, u32),
    Graph(F::Graph, BTreeSet<u32>),
    Edges(Vec<F::Edge>),
    Path(PathB<F>),
    Nodes(Vec<F::Node>),
}

struct World<F: Flavour> {
    reg: Arc<Registry>,
    slots: Vec<Option<Held<F>>>,
    /// ids mentioned by each slot
    mentions: Vec<BTreeSet<u32>>,
    next_id: u32,
    /// model edges among ids (u, v); for undirected flavours orientation is irrelevant
    edges: Vec<(u32, u32)>,
    /// nodes whose lists contain a dangling entry (a neighbour was released while connected)
    tainted: BTreeSet<u32>,
    released: BTreeSet<u32>,
}

impl<F: Flavour> World<F> {
    fn live_slots(&self, pred: impl Fn(&Held<F>) -> bool) -> Vec<usize> {
        self.slots.iter().enumerate().filter(|(_, s)| s.as_ref().map_or(false, |h| pred(h))).map(|x| x.0).collect()
    }
    fn pick(&self, raw: u16, pred: impl Fn(&Held<F>) -> bool) -> Option<usize> {
        let v = self.live_slots(pred);
        if v.is_empty() {
            None
        } else {
            Some(v[pt::idx(raw, v.len())])
        }
    }
    fn push(&mut self, h: Held<F>, ids: BTreeSet<u32>) {
        self.slots.push(Some(h));
        self.mentions.push(ids);
    }
    fn held_ids(&self) -> BTreeSet<u32> {
        let mut s = BTreeSet::new();
        for (i, sl) in self.slots.iter().enumerate() {
            if sl.is_some() {
                s.extend(self.mentions[i].iter().cloned());
            }
        }
        s
    }
    /// weakly connected component of `id` in the model
    fn component(&self, id: u32) -> BTreeSet<u32> {
        let mut seen = BTreeSet::from([id]);
        let mut st = vec![id];
        while let Some(x) = st.pop() {
            for &(a, b) in &self.edges {
                let y = if a == x {
                    b
                } else if b == x {
                    a
                } else {
                    continue;
                };
                if seen.insert(y) {
                    st.push(y);
                }
            }
        }
        seen
    }
    fn safe(&self, id: u32) -> bool {
        self.component(id).iter().all(|x| !self.tainted.contains(x))
    }
    fn node_of(&self, slot: usize) -> Option<(&F::Node, u32)> {
        match self.slots[slot].as_ref()? {
            Held::Node(n, id) => Some((n, *id)),
            _ => None,
        }
    }
}

fn is_node<F: Flavour>(h: &Held<F>) -> bool {
    matches!(h, Held::Node(..))
}
fn is_graph<F: Flavour>(h: &Held<F>) -> bool {
    matches!(h, Held::Graph(..))
}

fn ids_of_nodes<F: Flavour>(v: &[F::Node]) -> BTreeSet<u32> {
    v.iter().map(|n| F::key(n) as u32).collect()
}
fn ids_of_edges<F: Flavour>(v: &[F::Edge]) -> BTreeSet<u32> {
    v.iter().flat_map(|e| [F::key(F::e_src(e)) as u32, F::key(F::e_dst(e)) as u32]).collect()
}

/// after every step: released <=> no held object mentions the node; released exactly once
fn check<F: Flavour>(w: &mut World<F>) -> Result<(), Fail> {
    let held = w.held_ids();
    // nodes that just lost their last holder while still connected taint their neighbours
    for id in 0..w.next_id {
        if !held.contains(&id) && !w.released.contains(&id) {
            w.released.insert(id);
            let nb: Vec<u32> = w.edges.iter().filter(|e| e.0 == id || e.1 == id).map(|e| if e.0 == id { e.1 } else { e.0 }).filter(|x| *x != id).collect();
            for x in nb {
                w.tainted.insert(x);
            }
            w.edges.retain(|e| e.0 != id && e.1 != id);
        }
    }
    for id in 0..w.next_id {
        let live = w.reg.live(id);
        let drops = w.reg.drops(id);
        if held.contains(&id) {
            if live != 1 || drops != 0 {
                return fail("release.premature", format!("node {} is still mentioned by a held handle/result but its value has live={} drops={}", id, live, drops));
            }
        } else if live != 0 {
            return fail("release.leak", format!("no handle mentions node {} any more but its value is still alive (live={})", id, live));
        } else if drops != 1 {
            return fail("release.not-exactly-once", format!("node {} value dropped {} times", id, drops));
        }
    }
    Ok(())
}

/// handles inside kept objects stay usable: key/value/degree answer
fn use_slot<F: Flavour>(w: &World<F>, slot: usize) -> Result<(), Fail> {
    let chk = |n: &F::Node| -> Result<(), Fail> {
        let id = F::key(n) as u32;
        if F::prio(n) != id as i32 * 3 + 1 {
            return fail("usable.value", format!("node {} reports value {}", id, F::prio(n)));
        }
        let deg = F::out_degree(n) + F::in_degree(n);
        let model: usize = w.edges.iter().map(|e| (e.0 == id) as usize + (e.1 == id) as usize).sum();
        if !w.tainted.contains(&id) && deg != model {
            return fail("usable.degree", format!("node {} degree {} model {}", id, deg, model));
        }
        let _c = n.clone();
        Ok(())
    };
    match w.slots[slot].as_ref() {
        Some(Held::Node(n, _)) => chk(n),
        Some(Held::Nodes(v)) => v.iter().try_for_each(chk),
        Some(Held::Edges(v)) => v.iter().try_for_each(|e| chk(F::e_src(e)).and_then(|_| chk(F::e_dst(e)))),
        Some(Held::Path(p)) => p.nodes().iter().try_for_each(chk).and_then(|_| p.edges().iter().try_for_each(|e| chk(F::e_src(e)))),
        Some(Held::Graph(g, ids)) => {
            for id in ids {
                match F::g_get(g, *id as Key) {
                    Some(n) => chk(&n)?,
                    None => return fail("usable.container-lost-member", format!("member {}", id)),
                }
            }
            Ok(())
        }
        None => Ok(()),
    }
}

fn step<F: Flavour>(w: &mut World<F>, op: &DOp, st: &mut Stats, counting: bool) -> Result<(), Fail> {
    let cls = |st: &mut Stats, s: &str| {
        if counting {
            st.class(s)
        }
    };
    match *op {
        DOp::NewNode => {
            if w.next_id < 40 {
                let id = w.next_id;
                w.next_id += 1;
                let n = F::new_node(id as Key, NVal::tracked(id as i32 * 3 + 1, id, &w.reg));
                w.push(Held::Node(n, id), BTreeSet::from([id]));
            }
        }
        DOp::CloneHandle(a) => {
            if let Some(s) = w.pick(a, is_node::<F>) {
                let (n, id) = w.node_of(s).unwrap();
                let c = n.clone();
                w.push(Held::Node(c, id), BTreeSet::from([id]));
            }
        }
        DOp::Connect(a, b) => {
            if let (Some(sa), Some(sb)) = (w.pick(a, is_node::<F>), w.pick(b, is_node::<F>)) {
                let (ia, ib) = (w.node_of(sa).unwrap().1, w.node_of(sb).unwrap().1);
                if w.safe(ia) && w.safe(ib) {
                    F::connect(w.node_of(sa).unwrap().0, w.node_of(sb).unwrap().0, 7);
                    w.edges.push((ia, ib));
                    cls(st, if ia == ib { "op.connect-self-loop" } else { "op.connect" });
                }
            }
        }
        DOp::ConnectBurst(a, b, count) => {
            if let (Some(sa), Some(sb)) = (w.pick(a, is_node::<F>), w.pick(b, is_node::<F>)) {
                let (ia, ib) = (w.node_of(sa).unwrap().1, w.node_of(sb).unwrap().1);
                if w.safe(ia) && w.safe(ib) {
                    for _ in 0..count {
                        F::connect(w.node_of(sa).unwrap().0, w.node_of(sb).unwrap().0, 7);
                        w.edges.push((ia, ib));
                    }
                    cls(st, if count >= 256 { "op.connect-burst>=256" } else { "op.connect-burst<256" });
                }
            }
        }
        DOp::TryConnect(a, b) => {
            if let (Some(sa), Some(sb)) = (w.pick(a, is_node::<F>), w.pick(b, is_node::<F>)) {
                let (ia, ib) = (w.node_of(sa).unwrap().1, w.node_of(sb).unwrap().1);
                if w.safe(ia) && w.safe(ib) {
                    let r = F::try_connect(w.node_of(sa).unwrap().0, w.node_of(sb).unwrap().0, 9);
                    let had = w.edges.iter().any(|e| (e.0 == ia && e.1 == ib) || (!F::DIRECTED && e.0 == ib && e.1 == ia));
                    if r.is_ok() == had {
                        return fail("model.try_connect-disagrees", format!("try_connect({},{}) ok={} while the model has the edge={}", ia, ib, r.is_ok(), had));
                    }
                    if r.is_ok() {
                        w.edges.push((ia, ib));
                    }
                    cls(st, if had { "op.try_connect-existing" } else { "op.try_connect-new" });
                }
            }
        }
        DOp::Lookup(a, b) | DOp::LookupKeep(a, b) => {
            if let (Some(sa), Some(sb)) = (w.pick(a, is_node::<F>), w.pick(b, is_node::<F>)) {
                let (ia, ib) = (w.node_of(sa).unwrap().1, w.node_of(sb).unwrap().1);
                if w.safe(ia) && w.safe(ib) {
                    let na = w.node_of(sa).unwrap().0;
                    let c = F::is_connected(na, ib as Key);
                    let fo = F::find_out(na, ib as Key);
                    let fi = F::find_in(na, ib as Key);
                    let had = w.edges.iter().any(|e| (e.0 == ia && e.1 == ib) || (!F::DIRECTED && e.0 == ib && e.1 == ia));
                    if c != had || fo.is_some() != had {
                        return fail("model.lookup-disagrees", format!("is_connected({},{})={} find={} model={}", ia, ib, c, fo.is_some(), had));
                    }
                    cls(st, if had { "op.lookup-hit" } else { "op.lookup-miss" });
                    drop(fi);
                    if let (DOp::LookupKeep(..), Some(h)) = (op, fo) {
                        w.push(Held::Node(h, ib), BTreeSet::from([ib]));
                    }
                }
            }
        }
        DOp::Disconnect(a, b) => {
            if let (Some(sa), Some(sb)) = (w.pick(a, is_node::<F>), w.pick(b, is_node::<F>)) {
                let (ia, ib) = (w.node_of(sa).unwrap().1, w.node_of(sb).unwrap().1);
                if w.safe(ia) && w.safe(ib) {
                    let r = F::disconnect(w.node_of(sa).unwrap().0, ib as Key);
                    let pos = w.edges.iter().position(|e| (e.0 == ia && e.1 == ib) || (!F::DIRECTED && e.0 == ib && e.1 == ia));
                    match (r.is_ok(), pos) {
                        (true, Some(p)) => {
                            w.edges.remove(p);
                        }
                        (false, None) => {}
                        _ => return fail("model.disconnect-disagrees", format!("disconnect({},{}) ok={} model has edge={}", ia, ib, r.is_ok(), pos.is_some())),
                    }
                }
            }
        }
        DOp::Isolate(a) => {
            if let Some(sa) = w.pick(a, is_node::<F>) {
                let ia = w.node_of(sa).unwrap().1;
                if w.safe(ia) {
                    F::isolate(w.node_of(sa).unwrap().0);
                    w.edges.retain(|e| e.0 != ia && e.1 != ia);
                }
            }
        }
        DOp::GraphNew => {
            if w.live_slots(is_graph::<F>).len() < 3 {
                w.push(Held::Graph(F::g_new(), BTreeSet::new()), BTreeSet::new());
            }
        }
        DOp::GraphInsert(g, a) => {
            if let (Some(sg), Some(sa)) = (w.pick(g, is_graph::<F>), w.pick(a, is_node::<F>)) {
                let (n, id) = {
                    let (n, id) = w.node_of(sa).unwrap();
                    (n.clone(), id)
                };
                if let Some(Held::Graph(gr, ids)) = w.slots[sg].as_mut() {
                    let r = F::g_insert(gr, n);
                    if r != !ids.contains(&id) {
                        return fail("model.insert-disagrees", format!("insert({}) returned {}", id, r));
                    }
                    ids.insert(id);
                }
                w.mentions[sg].insert(id);
                cls(st, "op.graph-insert");
            }
        }
        DOp::GraphRemoveKeep(g, k) | DOp::GraphRemoveDrop(g, k) => {
            if let Some(sg) = w.pick(g, is_graph::<F>) {
                let members: Vec<u32> = w.mentions[sg].iter().cloned().collect();
                if !members.is_empty() {
                    let id = members[pt::idx(k, members.len())];
                    let r = if let Some(Held::Graph(gr, ids)) = w.slots[sg].as_mut() {
                        ids.remove(&id);
                        F::g_remove(gr, id as Key)
                    } else {
                        None
                    };
                    w.mentions[sg].remove(&id);
                    match r {
                        None => return fail("model.remove-disagrees", format!("remove({}) returned None for a member", id)),
                        Some(n) => {
                            if matches!(op, DOp::GraphRemoveKeep(..)) {
                                w.push(Held::Node(n, id), BTreeSet::from([id]));
                            }
                        }
                    }
                    cls(st, "op.graph-remove");
                }
            }
        }
        DOp::GraphGet(g, k) => {
            if let Some(sg) = w.pick(g, is_graph::<F>) {
                let members: Vec<u32> = w.mentions[sg].iter().cloned().collect();
                if !members.is_empty() {
                    let id = members[pt::idx(k, members.len())];
                    let r = if let Some(Held::Graph(gr, _)) = w.slots[sg].as_ref() { F::g_get(gr, id as Key) } else { None };
                    if let Some(n) = r {
                        w.push(Held::Node(n, id), BTreeSet::from([id]));
                    }
                }
            }
        }
        DOp::Search(a, kind) => {
            if kind == ResKind::ToVec {
                if let Some(sg) = w.pick(a, is_graph::<F>) {
                    let v = if let Some(Held::Graph(gr, _)) = w.slots[sg].as_ref() { F::g_to_vec(gr) } else { vec![] };
                    let ids = ids_of_nodes::<F>(&v);
                    w.push(Held::Nodes(v), ids);
                    cls(st, "op.result.to_vec");
                }
                return Ok(());
            }
            if let Some(sa) = w.pick(a, is_node::<F>) {
                let (root, ia) = {
                    let (n, id) = w.node_of(sa).unwrap();
                    (n.clone(), id)
                };
                if !w.safe(ia) {
                    return Ok(());
                }
                // a reachable target in the model (forward edges; undirected: any)
                let mut reach = vec![ia];
                let mut i = 0;
                while i < reach.len() {
                    let x = reach[i];
                    i += 1;
                    for &(p, q) in &w.edges {
                        let y = if p == x {
                            q
                        } else if !F::DIRECTED && q == x {
                            p
                        } else {
                            continue;
                        };
                        if !reach.contains(&y) {
                            reach.push(y);
                        }
                    }
                }
                let target = *reach.last().unwrap();
                match kind {
                    ResKind::Path | ResKind::Cycle => {
                        let cfg = SearchCfg { algo: if ia % 2 == 0 { Algo::Bfs } else { Algo::Dfs }, transposed: false, term: if kind == ResKind::Path { Term::Path } else { Term::Cycle }, target: Some(target as Key) };
                        if let SearchRes::Path(Some(p)) = F::search(&root, &cfg, Meth::None) {
                            let mut ids = ids_of_nodes::<F>(&p.nodes());
                            ids.extend(ids_of_edges::<F>(&p.edges()));
                            w.push(Held::Path(p), ids);
                            cls(st, "op.result.path");
                        }
                    }
                    ResKind::Found => {
                        let cfg = SearchCfg { algo: Algo::Dfs, transposed: false, term: Term::Search, target: Some(target as Key) };
                        if let SearchRes::Node(Some(n)) = F::search(&root, &cfg, Meth::None) {
                            let id = F::key(&n) as u32;
                            w.push(Held::Node(n, id), BTreeSet::from([id]));
                            cls(st, "op.result.found-node");
                        }
                    }
                    ResKind::OrderNodes => {
                        if let OrderRes::Nodes(v) = F::order(&root, &OrderCfg { ord: Ordk::Pre, transposed: false, term: OTerm::Nodes }, Meth::None) {
                            let ids = ids_of_nodes::<F>(&v);
                            w.push(Held::Nodes(v), ids);
                            cls(st, "op.result.order-nodes");
                        }
                    }
                    ResKind::OrderEdges => {
                        if let OrderRes::Edges(v) = F::order(&root, &OrderCfg { ord: Ordk::Post, transposed: false, term: OTerm::Edges }, Meth::None) {
                            let ids = ids_of_edges::<F>(&v);
                            w.push(Held::Edges(v), ids);
                            cls(st, "op.result.order-edges");
                        }
                    }
                    ResKind::IterEdges => {
                        let mut v = F::edges(&root, IterKind::Out);
                        if F::DIRECTED {
                            v.extend(F::edges(&root, IterKind::In));
                        }
                        let ids = ids_of_edges::<F>(&v);
                        w.push(Held::Edges(v), ids);
                        cls(st, "op.result.iter-edges");
                    }
                    ResKind::ToVec => {}
                }
            }
        }
        DOp::Use(a) => {
            if let Some(s) = w.pick(a, |_| true) {
                use_slot::<F>(w, s)?;
            }
        }
        DOp::Drop(a) => {
            if let Some(s) = w.pick(a, |_| true) {
                let ids = w.mentions[s].clone();
                let before = w.held_ids();
                w.slots[s] = None;
                let after = w.held_ids();
                for id in ids {
                    if before.contains(&id) && !after.contains(&id) {
                        let connected = w.edges.iter().any(|e| e.0 == id || e.1 == id);
                        let selfloop = w.edges.iter().any(|e| e.0 == id && e.1 == id);
                        cls(st, if connected { "drop.last-handle-of-connected-node" } else { "drop.last-handle-of-isolated-node" });
                        if selfloop {
                            cls(st, "drop.last-handle-of-self-looped-node");
                        }
                    }
                }
            }
        }
    }
    Ok(())
}

pub fn run_case<F: Flavour>(c: &DCase, st: &mut Stats, counting: bool) -> bool {
    if F::SYNC {
        hook::install_self_deadlock_detector();
    }
    if counting {
        st.eval();
    }
    let mut w: World<F> = World { reg: Registry::new(), slots: vec![], mentions: vec![], next_id: 0, edges: vec![], tainted: BTreeSet::new(), released: BTreeSet::new() };
    let mut failure: Option<(usize, Fail, String)> = None;
    for (i, op) in c.ops.iter().enumerate() {
        let r = catch_unwind(AssertUnwindSafe(|| step::<F>(&mut w, op, st, counting).and_then(|_| check::<F>(&mut w))));
        let res = match r {
            Ok(x) => x,
            Err(p) => {
                let m = panic_msg(p);
                fail(if m.starts_with(hook::SELF_DEADLOCK) { "op.self-deadlock" } else { "op.panic" }, m)
            }
        };
        if let Err(f) = res {
            failure = Some((i, f, format!("{:?}", op)));
            break;
        }
    }
    if failure.is_none() {
        // final drop-all in the generated order
        let mut k = 0;
        loop {
            let live = w.live_slots(|_| true);
            if live.is_empty() {
                break;
            }
            let raw = c.final_drops.get(k).cloned().unwrap_or(0);
            k += 1;
            let s = live[pt::idx(raw, live.len())];
            let r = catch_unwind(AssertUnwindSafe(|| {
                w.slots[s] = None;
                check::<F>(&mut w)
            }));
            let res = match r {
                Ok(x) => x,
                Err(p) => fail("op.panic", panic_msg(p)),
            };
            if let Err(f) = res {
                failure = Some((c.ops.len(), f, "final drop".into()));
                break;
            }
        }
        if failure.is_none() && w.reg.total_live() != 0 {
            failure = Some((c.ops.len(), Fail { clause: "release.leak", detail: format!("{} node values still alive after every handle was dropped", w.reg.total_live()) }, "final drop".into()));
        }
    }
    if counting {
        let had_cycle_drop = st.classes.contains_key("drop.last-handle-of-connected-node");
        let _ = had_cycle_drop;
    }
    match failure {
        None => true,
        Some((i, f, opname)) => {
            let mut cc = c.clone();
            cc.ops.truncate((i + 1).min(c.ops.len()));
            let opn = opname.split('(').next().unwrap_or("").to_string();
            st.report(Finding {
                property: "C19".into(),
                flavour: F::NAME.into(),
                clause: f.clause.into(),
                signature: format!("{} | {} | {}", F::NAME, opn, f.clause),
                case: json!({"kind": "drops", "flavour": F::NAME, "ops": cc.ops, "final_drops": cc.final_drops}),
                detail: format!("step {} {}: {}", i, opname, f.detail),
            });
            false
        }
    }
}

pub fn run_all(c: &DCase, st: &mut Stats, counting: bool, only: Option<&str>) -> bool {
    let mut ok = true;
    if counting {
        let connects = c.ops.iter().filter(|o| matches!(o, DOp::Connect(..) | DOp::ConnectBurst(..))).count();
        let drops = c.ops.iter().filter(|o| matches!(o, DOp::Drop(_))).count();
        let results = c.ops.iter().any(|o| matches!(o, DOp::Search(..)));
        if connects >= 2 && drops >= 1 && results {
            st.nontrivial(c);
        }
    }
    macro_rules! go {
        ($F:ty) => {
            if only.map_or(true, |o| o == <$F>::NAME) {
                ok &= run_case::<$F>(c, st, counting);
            }
        };
    }
    go!(Di);
    go!(SDi);
    go!(Un);
    go!(SUn);
    ok
}

fn op_strategy() -> impl Strategy<Value = DOp> {
    let r = || any::<u16>();
    let kind = prop_oneof![Just(ResKind::Path), Just(ResKind::Found), Just(ResKind::OrderNodes), Just(ResKind::OrderEdges), Just(ResKind::IterEdges), Just(ResKind::Cycle), Just(ResKind::ToVec)];
    prop_oneof![
        5 => Just(DOp::NewNode),
        2 => r().prop_map(DOp::CloneHandle),
        8 => (r(), r()).prop_map(|(a, b)| DOp::Connect(a, b)),
        1 => r().prop_map(|a| DOp::Connect(a, a)),
        1 => (r(), r(), prop_oneof![Just(9u16), Just(33), Just(130), 250u16..270, Just(520)]).prop_map(|(a, b, c)| DOp::ConnectBurst(a, b, c)),
        1 => (r(), r()).prop_map(|(a, b)| DOp::Disconnect(a, b)),
        3 => (r(), r()).prop_map(|(a, b)| DOp::TryConnect(a, b)),
        4 => (r(), r()).prop_map(|(a, b)| DOp::Lookup(a, b)),
        1 => (r(), r()).prop_map(|(a, b)| DOp::LookupKeep(a, b)),
        1 => r().prop_map(DOp::Isolate),
        1 => Just(DOp::GraphNew),
        3 => (r(), r()).prop_map(|(a, b)| DOp::GraphInsert(a, b)),
        1 => (r(), r()).prop_map(|(a, b)| DOp::GraphRemoveKeep(a, b)),
        1 => (r(), r()).prop_map(|(a, b)| DOp::GraphRemoveDrop(a, b)),
        1 => (r(), r()).prop_map(|(a, b)| DOp::GraphGet(a, b)),
        4 => (r(), kind).prop_map(|(a, k)| DOp::Search(a, k)),
        2 => r().prop_map(DOp::Use),
        6 => r().prop_map(DOp::Drop),
    ]
}

pub fn case_strategy(max_len: usize) -> impl Strategy<Value = DCase> {
    (proptest::collection::vec(op_strategy(), 0..=max_len), proptest::collection::vec(any::<u16>(), 0..=60)).prop_map(|(ops, final_drops)| DCase { ops, final_drops })
}

/// enumerated small histories: k nodes wired as one of a few shapes
/// (cycle, self-loops, chain, star, parallel edges), one result object of
/// each kind taken, then every drop order of the held objects
fn enumerate(st: &mut Stats, wd: &Watchdog, w: usize, workers: usize, max_nodes: usize) {
    let kinds = [ResKind::Path, ResKind::Found, ResKind::OrderNodes, ResKind::OrderEdges, ResKind::IterEdges, ResKind::Cycle, ResKind::ToVec];
    let mut i = 0u64;
    for n in 1..=max_nodes {
        // shapes as connect lists over slot indices 0..n (slot i holds node i)
        let mut shapes: Vec<Vec<(usize, usize)>> = vec![vec![], (0..n).map(|k| (k, (k + 1) % n)).collect(), (0..n).map(|k| (k, k)).collect(), (1..n).map(|k| (k - 1, k)).collect(), (1..n).map(|k| (0, k)).collect()];
        shapes.push((0..n).flat_map(|k| [(k, (k + 1) % n), (k, (k + 1) % n)]).collect());
        for shape in &shapes {
            for kind in kinds {
                for (with_graph, lookups) in [(false, false), (true, false), (false, true), (true, true)] {
                    // held objects after setup: n node slots (+ graph) + result
                    let objs = n + with_graph as usize + 1;
                    // every permutation of the final drop order, encoded through final_drops raw indices
                    let mut perm: Vec<usize> = (0..objs).collect();
                    let mut c = vec![0usize; objs];
                    let mut emit = |perm: &Vec<usize>, st: &mut Stats| {
                        i += 1;
                        if i % workers as u64 != w as u64 {
                            return;
                        }
                        wd.tick();
                        let raw = |k: usize, len: usize| -> u16 { (((k as u32) << 16) / len as u32 + 1).min(65535) as u16 };
                        let mut ops: Vec<DOp> = (0..n).map(|_| DOp::NewNode).collect();
                        // slots 0..n are nodes; node-slot picks map over n live node slots
                        for &(a, b) in shape {
                            ops.push(DOp::Connect(raw(a, n), raw(b, n)));
                        }
                        if lookups {
                            for &(a, b) in shape {
                                ops.push(DOp::Lookup(raw(a, n), raw(b, n)));
                                ops.push(DOp::TryConnect(raw(a, n), raw(b, n)));
                                ops.push(DOp::Lookup(raw(b, n), raw(a, n)));
                            }
                        }
                        if with_graph {
                            ops.push(DOp::GraphNew);
                            for a in 0..n {
                                ops.push(DOp::GraphInsert(0, raw(a, n)));
                            }
                        }
                        ops.push(DOp::Search(0, kind));
                        // final drops: remaining live list shrinks; translate the permutation into successive indices
                        let mut remaining: Vec<usize> = (0..objs).collect();
                        let mut fd = vec![];
                        for &p in perm {
                            let pos = remaining.iter().position(|x| *x == p).unwrap();
                            fd.push(raw(pos, remaining.len()));
                            remaining.remove(pos);
                        }
                        let case = DCase { ops, final_drops: fd };
                        st.class("histories.enumerated");
                        if n == 3 && kind == ResKind::Path && with_graph {
                            st.sample_kind("enumerated", 1, || json!({"enumerated_drop_history": case}));
                        }
                        run_all(&case, st, true, None);
                    };
                    emit(&perm, st);
                    let mut k = 0;
                    while k < objs {
                        if c[k] < k {
                            if k % 2 == 0 {
                                perm.swap(0, k);
                            } else {
                                perm.swap(c[k], k);
                            }
                            emit(&perm, st);
                            c[k] += 1;
                            k = 0;
                        } else {
                            c[k] = 0;
                            k += 1;
                        }
                    }
                }
            }
        }
    }
}

/// two or three nodes, one of them with a long adjacency list (sizes on both sides of the powers of two), closed
/// into a cycle or a self-loop, one kept result, every drop order
fn wide_cases(st: &mut Stats, wd: &Watchdog, w: usize, workers: usize, sizes: &[u16]) {
    let kinds = [ResKind::Path, ResKind::OrderEdges, ResKind::Cycle, ResKind::ToVec];
    let raw = |k: usize, len: usize| -> u16 { (((k as u32) << 16) / len as u32 + 1).min(65535) as u16 };
    let mut i = 0usize;
    for &k in sizes {
        for close in 0..4 {
            for kind in kinds {
                for with_graph in [false, true] {
                    i += 1;
                    if i % workers != w {
                        continue;
                    }
                    let n = 3usize;
                    let mut ops: Vec<DOp> = (0..n).map(|_| DOp::NewNode).collect();
                    match close {
                        0 => ops.extend([DOp::ConnectBurst(raw(0, n), raw(1, n), k), DOp::Connect(raw(0, n), raw(0, n))]),
                        1 => ops.extend([DOp::ConnectBurst(raw(0, n), raw(1, n), k), DOp::Connect(raw(1, n), raw(0, n))]),
                        2 => ops.extend([DOp::ConnectBurst(raw(0, n), raw(1, n), k / 2), DOp::ConnectBurst(raw(0, n), raw(2, n), k - k / 2), DOp::Connect(raw(2, n), raw(1, n)), DOp::Connect(raw(1, n), raw(0, n))]),
                        _ => ops.extend([DOp::ConnectBurst(raw(1, n), raw(0, n), k), DOp::ConnectBurst(raw(0, n), raw(1, n), k)]),
                    }
                    ops.push(DOp::Lookup(raw(0, n), raw(1, n)));
                    if with_graph {
                        ops.push(DOp::GraphNew);
                        for a in 0..n {
                            ops.push(DOp::GraphInsert(0, raw(a, n)));
                        }
                    }
                    ops.push(DOp::Search(0, kind));
                    let objs = n + with_graph as usize + 1;
                    // all drop orders of <= 5 objects
                    let mut perms: Vec<Vec<usize>> = vec![vec![]];
                    for _ in 0..objs {
                        perms = perms.into_iter().flat_map(|p| (0..objs).filter(|x| !p.contains(x)).map(|x| { let mut q = p.clone(); q.push(x); q }).collect::<Vec<_>>()).collect();
                    }
                    // beyond 8193 edges: two drop orders only (every case builds the whole list on four flavours)
                    let perms: Vec<Vec<usize>> = if k > 8193 { vec![(0..objs).collect(), (0..objs).rev().collect()] } else { perms };
                    for perm in perms {
                        wd.tick();
                        let mut remaining: Vec<usize> = (0..objs).collect();
                        let mut fd = vec![];
                        for &p in &perm {
                            let pos = remaining.iter().position(|x| *x == p).unwrap();
                            fd.push(raw(pos, remaining.len()));
                            remaining.remove(pos);
                        }
                        let case = DCase { ops: ops.clone(), final_drops: fd };
                        st.class("histories.wide-adjacency-lists");
                        run_all(&case, st, true, None);
                    }
                }
            }
        }
    }
}

pub fn run(ctx: &mut Ctx) {
    ctx.rule = "cases = histories over held objects (node handles, clones, containers, kept search results: Path, found node, Vec<Node>, Vec<Edge>, cycle, to_vec) with create / clone / connect (incl. self-loops) / disconnect / isolate / container insert, remove, get / search / use / drop of any held object, then a final drop-all in a generated order: (a) enumerated: 1..N nodes wired as {nothing, cycle, self-loops, chain, star, doubled cycle} x one result of each kind x with/without container x EVERY drop order of the held objects; (b) proptest histories. Oracle after every step via drop-counting node values: a node's value is released iff no held object mentions the node, exactly once; kept results stay usable; after the last drop nothing is alive. Dropping the last handle of a still-connected node is generated on purpose; its neighbours are then only given calls that do not dereference peers. Non-trivial = history with >=2 connects, a drop and a kept result; distinct = hash of the history.".into();
    ctx.assumptions = vec!["the library's documented panic when iterating over an edge whose peer was released is outside the statement: such neighbours are marked tainted and excluded from peer-dereferencing calls".into()];
    let tier = ctx.tier;
    let seed = ctx.seed;
    let wd = ctx.watchdog.clone();
    let max_nodes = tier.pick(3usize, 4usize);
    let workers = 16usize;
    let enumerated = parallel(workers, |w| {
        let mut st = Stats::new();
        enumerate(&mut st, &wd, w, workers, max_nodes);
        wide_cases(&mut st, &wd, w, workers, if max_nodes <= 3 { &[17, 65, 255, 256, 257, 300, 1025, 2049, 4097, 8193] } else { &[17, 65, 255, 256, 257, 300, 1023, 1025, 2049, 4097, 8193, 20_000, 65_000] });
        st
    });
    let failed = enumerated.has_findings();
    ctx.stats.merge(enumerated);
    ctx.exhaustive = Some(!failed);
    ctx.stats.extra.insert("enumeration_bounds".into(), json!({"max_nodes": max_nodes, "shapes": 6, "result_kinds": 7, "drop_orders": "all permutations of the held objects"}));
    let cases = tier.pick(3000u32, 30_000u32);
    let max_len = tier.pick(80usize, 200usize);
    let random = parallel(tier.pick(8, 16), |w| {
        let mut st = Stats::new();
        let cell = std::cell::RefCell::new(&mut st);
        let strat = case_strategy(max_len);
        let minimal = pt::run(seed, 500 + w as u64, cases, &strat, |c, counting| {
            wd.tick();
            if counting {
                let mut st = cell.borrow_mut();
                if c.ops.len() >= 12 {
                    st.sample_kind("random", 1, || json!({"drop_history": c}));
                }
                run_all(c, &mut st, true, None)
            } else {
                let mut scratch = Stats::new();
                run_all(c, &mut scratch, false, None)
            }
        });
        drop(cell);
        if let Some(m) = minimal {
            let mut only = Stats::new();
            run_all(&m, &mut only, false, None);
            for (sig, f) in only.findings {
                st.findings.insert(sig, f);
            }
        }
        st
    });
    ctx.stats.merge(random);
    let _: Option<(BTreeMap<u8, u8>, State)> = None;
}

pub fn replay(v: &Value, st: &mut Stats) -> Result<(), String> {
    let c: DCase = serde_json::from_value(json!({"ops": v["ops"], "final_drops": v["final_drops"]})).map_err(|e| e.to_string())?;
    run_all(&c, st, true, v["flavour"].as_str());
    st.sample(|| json!({"replayed": c}));
    Ok(())
}
