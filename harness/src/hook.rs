//! Single-threaded use of the lock-point hook: "would block" can only mean
//! that the current thread already holds the lock, i.e. a self-deadlock;
//! turn it into a recognisable panic instead of a hang.
use gdsl::verif_hooks::{self, LockProbe, Mode};
use std::rc::Rc;

pub const SELF_DEADLOCK: &str = "SELF-DEADLOCK";

pub fn install_self_deadlock_detector() {
    verif_hooks::install(Some(Rc::new(|p: &dyn LockProbe, mode: Mode| {
        if p.would_block(mode) {
            panic!("{}: acquiring a node lock for {:?} would block on a lock this thread already holds", SELF_DEADLOCK, mode);
        }
    })));
}
pub fn uninstall() {
    verif_hooks::install(None);
}
