//! C13: deserialising untrusted input never panics or builds a broken graph.
//! The oracle is shared by the proptest driver below and by the libFuzzer
//! target in harness/fuzz (which calls `check_bytes`).
use crate::container::Fmt;
use crate::ctx::*;
use crate::flavour::*;
use crate::hist::observe;
use crate::model::*;
use crate::pt;
use crate::searchrun::rawg_strategy;
use crate::types::*;
use proptest::prelude::*;
use serde_json::{json, Value};
use std::collections::{BTreeMap, BTreeSet};
use std::panic::{catch_unwind, AssertUnwindSafe};

type Doc = (Vec<(Key, NVal)>, Vec<(Key, Key, EV)>);

/// what the document declares, according to serde's own tuple / Vec impls
pub enum Declared {
    Full(Vec<(Key, i32)>, Vec<(Key, Key, EV)>),
    /// serde rejects the document as a (nodes, edges) / (nodes,) / () shape
    Unknown,
}

pub fn reference_parse(fmt: Fmt, bytes: &[u8]) -> Declared {
    let full: Option<Doc> = match fmt {
        Fmt::Json => serde_json::from_slice::<Doc>(bytes).ok(),
        Fmt::Cbor => serde_cbor::from_slice::<Doc>(bytes).ok(),
    };
    if let Some((n, e)) = full {
        return Declared::Full(n.iter().map(|x| (x.0, x.1.p())).collect(), e);
    }
    let one: Option<(Vec<(Key, NVal)>,)> = match fmt {
        Fmt::Json => serde_json::from_slice(bytes).ok(),
        Fmt::Cbor => serde_cbor::from_slice(bytes).ok(),
    };
    if let Some((n,)) = one {
        return Declared::Full(n.iter().map(|x| (x.0, x.1.p())).collect(), vec![]);
    }
    let zero: Option<[u8; 0]> = match fmt {
        Fmt::Json => serde_json::from_slice(bytes).ok(),
        Fmt::Cbor => serde_cbor::from_slice(bytes).ok(),
    };
    if zero.is_some() {
        return Declared::Full(vec![], vec![]);
    }
    Declared::Unknown
}

#[derive(Debug, Clone, Copy, PartialEq, Eq)]
pub enum Verdict {
    /// library returned Err
    Rejected,
    /// Ok and verified against the declared content
    AcceptedVerified,
    /// Ok, invariants hold, but serde's tuple impls do not accept the shape, so content was not compared
    AcceptedUnverified,
}

/// the C13 oracle for one document on one flavour
pub fn check_one<F: Flavour>(fmt: Fmt, bytes: &[u8]) -> Result<Verdict, Fail> {
    let r = match fmt {
        Fmt::Json => F::de_json(bytes),
        Fmt::Cbor => F::de_cbor(bytes),
    };
    let declared = reference_parse(fmt, bytes);
    let g = match r {
        Err(_) => return Ok(Verdict::Rejected),
        Ok(g) => g,
    };
    // Ok(g): structural soundness first
    let members = F::g_iter(&g);
    let keys: Vec<Key> = members.iter().map(|x| x.0).collect();
    for (k, nd) in &members {
        if F::key(nd) != *k {
            return fail("accepted.member-key-mismatch", format!("member under key {} has key {}", k, F::key(nd)));
        }
    }
    // observe every member's lists; peers must be members (same allocation)
    let idx: BTreeMap<Key, usize> = keys.iter().enumerate().map(|(i, k)| (*k, i)).collect();
    let nodes: Vec<F::Node> = members.iter().map(|x| x.1.clone()).collect();
    let obs_raw = observe::<F>(&nodes).map_err(|p| Fail { clause: "accepted.graph-unreadable", detail: p })?;
    // re-index by position for the invariant functions
    let reidx = |l: &L| -> Result<L, Fail> {
        l.iter().map(|&(k, e)| idx.get(&k).map(|i| (*i as Key, e)).ok_or(Fail { clause: "accepted.edge-to-non-member", detail: format!("an edge points at key {} which is not a member", k) })).collect()
    };
    let mut st = State::empty(nodes.len());
    for i in 0..nodes.len() {
        st.out[i] = reidx(&obs_raw.out[i])?;
        st.inc[i] = reidx(&obs_raw.inc[i])?;
    }
    for nd in &nodes {
        for e in F::edges(nd, IterKind::Out) {
            let d = F::e_dst(&e);
            match F::g_get(&g, F::key(d)) {
                Some(m) if F::addr(&m) == F::addr(d) => {}
                _ => return fail("accepted.edge-to-non-member", format!("edge {:?} ends at a node that is not the container's member", F::tri(&e))),
            }
        }
    }
    if F::DIRECTED {
        d_inv(&st).map_err(|f| Fail { clause: "accepted.mirror-broken", detail: f.detail })?;
    } else {
        u_inv(&st).map_err(|f| Fail { clause: "accepted.symmetry-broken", detail: f.detail })?;
    }
    let (dn, de) = match declared {
        Declared::Unknown => return Ok(Verdict::AcceptedUnverified),
        Declared::Full(n, e) => (n, e),
    };
    let dkeys: BTreeSet<Key> = dn.iter().map(|x| x.0).collect();
    if let Some(bad) = de.iter().find(|e| !dkeys.contains(&e.0) || !dkeys.contains(&e.1)) {
        return fail("accepted.edge-names-undeclared-key", format!("the document lists edge {:?} but declares only keys {:?}, and deserialisation returned Ok", bad, dkeys));
    }
    for (k, nd) in &members {
        if !dkeys.contains(k) {
            return fail("accepted.node-not-in-document", format!("key {}", k));
        }
        if !dn.iter().any(|x| x.0 == *k && x.1 == F::prio(nd)) {
            return fail("accepted.node-value-not-in-document", format!("key {} carries value {}", k, F::prio(nd)));
        }
    }
    // edges of g (incidences for undirected) are contained in the listed edges
    let mut listed: BTreeMap<(Key, Key, EV), usize> = BTreeMap::new();
    for &(u, v, e) in &de {
        if F::DIRECTED {
            *listed.entry((u, v, e)).or_insert(0) += 1;
        } else {
            *listed.entry((u, v, e)).or_insert(0) += 1;
            *listed.entry((v, u, e)).or_insert(0) += 1;
        }
    }
    let mut got: BTreeMap<(Key, Key, EV), usize> = BTreeMap::new();
    for (i, k) in keys.iter().enumerate() {
        for &(t, e) in &obs_raw.out[i] {
            *got.entry((*k, t, e)).or_insert(0) += 1;
        }
    }
    for (k, c) in &got {
        if listed.get(k).cloned().unwrap_or(0) < *c {
            return fail("accepted.edge-not-in-document", format!("the graph has {:?} x{} but the document lists it {} times", k, c, listed.get(k).cloned().unwrap_or(0)));
        }
    }
    Ok(Verdict::AcceptedVerified)
}

pub const FLAVOURS: [&str; 4] = ["digraph", "sync_digraph", "ungraph", "sync_ungraph"];

pub fn check_named(flavour: usize, fmt: Fmt, bytes: &[u8]) -> Result<Verdict, Fail> {
    match flavour % 4 {
        0 => check_one::<Di>(fmt, bytes),
        1 => check_one::<SDi>(fmt, bytes),
        2 => check_one::<Un>(fmt, bytes),
        _ => check_one::<SUn>(fmt, bytes),
    }
}

/// entry point of the fuzz target: byte 0 selects flavour x format, the rest is the document.
/// Panics (= libFuzzer crash) when the oracle fails.
pub fn check_bytes(data: &[u8]) {
    if data.is_empty() {
        return;
    }
    let sel = data[0] as usize;
    let fmt = if (sel / 4) % 2 == 0 { Fmt::Json } else { Fmt::Cbor };
    if let Err(f) = check_named(sel % 4, fmt, &data[1..]) {
        panic!("C13 ORACLE {} flavour={} format={:?}: {}", f.clause, FLAVOURS[sel % 4], fmt, f.detail);
    }
}

// ------------------------------------------------------------------ structural mutation (proptest)

#[derive(Clone, Debug)]
pub enum Mutn {
    DropNode(u16),
    DupNode(u16, i8),
    RetargetEdge(u16, bool, u16),
    Retype(u16, u8),
    Truncate(u8),
    SwapLists,
    Nest(u8),
    EdgeArity(u16, bool),
    NodeArity(u16, bool),
    DupEdge(u16),
    Scalar(u8),
    BigNumber(u16),
}

fn mutn_strategy() -> impl Strategy<Value = Mutn> {
    let r = || any::<u16>();
    prop_oneof![
        3 => r().prop_map(Mutn::DropNode),
        3 => (r(), any::<i8>()).prop_map(|(a, b)| Mutn::DupNode(a, b)),
        4 => (r(), any::<bool>(), r()).prop_map(|(a, b, c)| Mutn::RetargetEdge(a, b, c)),
        3 => (r(), 0u8..8).prop_map(|(a, b)| Mutn::Retype(a, b)),
        2 => (0u8..5).prop_map(Mutn::Truncate),
        1 => Just(Mutn::SwapLists),
        1 => (1u8..40).prop_map(Mutn::Nest),
        2 => (r(), any::<bool>()).prop_map(|(a, b)| Mutn::EdgeArity(a, b)),
        2 => (r(), any::<bool>()).prop_map(|(a, b)| Mutn::NodeArity(a, b)),
        1 => r().prop_map(Mutn::DupEdge),
        1 => (0u8..6).prop_map(Mutn::Scalar),
        2 => r().prop_map(Mutn::BigNumber),
    ]
}

pub fn valid_doc(g: &GCase) -> Value {
    json!([g.prio.iter().enumerate().map(|(k, p)| json!([k, p])).collect::<Vec<_>>(), g.edges.iter().map(|&(u, v, e)| json!([u, v, e])).collect::<Vec<_>>()])
}

fn weird(kind: u8) -> Value {
    match kind % 8 {
        0 => Value::Null,
        1 => json!("x"),
        2 => json!(1.5),
        3 => json!(-1),
        4 => json!([1, 2]),
        5 => json!({"a": 1}),
        6 => json!(true),
        _ => json!(70000),
    }
}

pub fn apply_mutation(doc: &mut Value, m: &Mutn) {
    let len_of = |v: &Value, i: usize| v.get(i).and_then(|x| x.as_array()).map_or(0, |a| a.len());
    match m {
        Mutn::DropNode(i) => {
            let n = len_of(doc, 0);
            if n > 0 {
                doc[0].as_array_mut().unwrap().remove(pt::idx(*i, n));
            }
        }
        Mutn::DupNode(i, dv) => {
            let n = len_of(doc, 0);
            if n > 0 {
                let mut c = doc[0][pt::idx(*i, n)].clone();
                if let Some(v) = c.get_mut(1) {
                    *v = json!(v.as_i64().unwrap_or(0) + *dv as i64 + 1);
                }
                let at = pt::idx(*i, n + 1);
                doc[0].as_array_mut().unwrap().insert(at, c);
            }
        }
        Mutn::RetargetEdge(i, src, k) => {
            let n = len_of(doc, 1);
            if n > 0 {
                let nodes = len_of(doc, 0) as u64;
                let key = nodes + (*k as u64 % 3);
                if let Some(e) = doc[1][pt::idx(*i, n)].as_array_mut() {
                    if e.len() >= 2 {
                        e[if *src { 0 } else { 1 }] = json!(key);
                    }
                }
            } else if doc.get(1).and_then(|x| x.as_array()).is_some() {
                let nodes = len_of(doc, 0) as u64;
                doc[1].as_array_mut().unwrap().push(json!([0, nodes + 1, 1]));
            }
        }
        Mutn::Retype(i, kind) => {
            // pick a random scalar position in the document and replace it
            let mut paths: Vec<(usize, usize, usize)> = vec![];
            for l in 0..2 {
                for a in 0..len_of(doc, l) {
                    for b in 0..doc[l][a].as_array().map_or(0, |x| x.len()) {
                        paths.push((l, a, b));
                    }
                }
            }
            if !paths.is_empty() {
                let (l, a, b) = paths[pt::idx(*i, paths.len())];
                doc[l][a][b] = weird(*kind);
            }
        }
        Mutn::Truncate(k) => {
            if let Some(a) = doc.as_array_mut() {
                match k % 5 {
                    0 => a.clear(),
                    1 => a.truncate(1),
                    2 => a.push(json!([])),
                    3 => a.push(json!(7)),
                    _ => {
                        a.truncate(1);
                        a.push(Value::Null)
                    }
                }
            }
        }
        Mutn::SwapLists => {
            if let Some(a) = doc.as_array_mut() {
                if a.len() >= 2 {
                    a.swap(0, 1);
                }
            }
        }
        Mutn::Nest(d) => {
            let mut v = doc.clone();
            for _ in 0..*d {
                v = json!([v]);
            }
            *doc = v;
        }
        Mutn::EdgeArity(i, grow) => {
            let n = len_of(doc, 1);
            if n > 0 {
                if let Some(e) = doc[1][pt::idx(*i, n)].as_array_mut() {
                    if *grow {
                        e.push(json!(0));
                    } else {
                        e.pop();
                    }
                }
            }
        }
        Mutn::NodeArity(i, grow) => {
            let n = len_of(doc, 0);
            if n > 0 {
                if let Some(e) = doc[0][pt::idx(*i, n)].as_array_mut() {
                    if *grow {
                        e.push(json!(0));
                    } else {
                        e.pop();
                    }
                }
            }
        }
        Mutn::DupEdge(i) => {
            let n = len_of(doc, 1);
            if n > 0 {
                let c = doc[1][pt::idx(*i, n)].clone();
                doc[1].as_array_mut().unwrap().push(c);
            }
        }
        Mutn::Scalar(k) => *doc = weird(*k),
        Mutn::BigNumber(i) => {
            let n = len_of(doc, 1);
            if n > 0 {
                if let Some(e) = doc[1][pt::idx(*i, n)].as_array_mut() {
                    if !e.is_empty() {
                        let last = e.len() - 1;
                        e[last] = json!(u64::MAX);
                    }
                }
            }
        }
    }
}

#[derive(Clone, Debug)]
pub struct RawDoc {
    g: crate::searchrun::RawG,
    muts: Vec<Mutn>,
    /// byte-level: (truncate at, flip position, flip mask)
    bytes: Option<(u16, u16, u8)>,
}

fn rawdoc_strategy() -> impl Strategy<Value = RawDoc> {
    (rawg_strategy(8), proptest::collection::vec(mutn_strategy(), 0..=3), proptest::option::weighted(0.25, (any::<u16>(), any::<u16>(), any::<u8>()))).prop_map(|(g, muts, bytes)| RawDoc { g, muts, bytes })
}

impl RawDoc {
    pub fn documents(&self) -> (Value, Vec<u8>, Vec<u8>) {
        let g = self.g.graph();
        let mut doc = valid_doc(&g);
        for m in &self.muts {
            apply_mutation(&mut doc, m);
        }
        let mut j = serde_json::to_vec(&doc).unwrap_or_default();
        let mut c = serde_cbor::to_vec(&doc).unwrap_or_default();
        if let Some((t, f, mask)) = self.bytes {
            for b in [&mut j, &mut c] {
                if !b.is_empty() {
                    let at = pt::idx(f, b.len());
                    b[at] ^= mask | 1;
                    if t % 3 == 0 {
                        let keep = pt::idx(t, b.len() + 1);
                        b.truncate(keep);
                    }
                }
            }
        }
        (doc, j, c)
    }
}

thread_local! {
    /// when set, the document about to be handed to the library is written here first
    /// ([sel byte][document]) so that a parent process can name it if this process dies
    static BEACON: std::cell::RefCell<Option<std::fs::File>> = const { std::cell::RefCell::new(None) };
}
fn beacon(sel: u8, bytes: &[u8]) {
    use std::io::{Seek, SeekFrom, Write};
    BEACON.with(|b| {
        if let Some(f) = b.borrow_mut().as_mut() {
            let mut buf = Vec::with_capacity(bytes.len() + 5);
            buf.extend_from_slice(&(bytes.len() as u32 + 1).to_le_bytes());
            buf.push(sel);
            buf.extend_from_slice(bytes);
            let _ = f.seek(SeekFrom::Start(0)).and_then(|_| f.write_all(&buf));
        }
    });
}
fn read_beacon(path: &std::path::Path) -> Option<Vec<u8>> {
    let b = std::fs::read(path).ok()?;
    if b.len() < 5 {
        return None;
    }
    let n = u32::from_le_bytes([b[0], b[1], b[2], b[3]]) as usize;
    b.get(4..4 + n).map(|x| x.to_vec())
}

fn run_doc(fmt: Fmt, bytes: &[u8], st: &mut Stats, counting: bool, only: Option<&str>, desc: &Value) -> bool {
    let mut ok = true;
    for (fi, name) in FLAVOURS.iter().enumerate() {
        if only.map_or(false, |o| o != *name) {
            continue;
        }
        if counting {
            st.eval();
        }
        beacon(fi as u8 + if fmt == Fmt::Cbor { 4 } else { 0 }, bytes);
        crate::hook::install_self_deadlock_detector();
        let r = catch_unwind(AssertUnwindSafe(|| check_named(fi, fmt, bytes)));
        let res = match r {
            Ok(x) => x,
            Err(p) => fail("deserialize.panic", panic_msg(p)),
        };
        match res {
            Ok(v) => {
                if counting {
                    st.class(&format!("verdict.{:?}", v));
                }
            }
            Err(f) => {
                ok = false;
                st.report(Finding {
                    property: "C13".into(),
                    flavour: (*name).into(),
                    clause: f.clause.into(),
                    signature: format!("{} | {:?} | {}", name, fmt, f.clause),
                    case: json!({"kind": "document", "flavour": name, "format": fmt, "bytes_hex": bytes.iter().map(|b| format!("{:02x}", b)).collect::<String>(), "as_value": desc}),
                    detail: f.detail,
                });
            }
        }
    }
    ok
}

fn run_raw(raw: &RawDoc, st: &mut Stats, counting: bool) -> bool {
    let (doc, j, c) = raw.documents();
    if counting {
        let g = raw.g.graph();
        let unchanged = raw.muts.is_empty() && raw.bytes.is_none();
        st.class(if unchanged { "document.valid-unmutated" } else { "document.mutated" });
        for m in &raw.muts {
            let n = format!("{:?}", m);
            st.class(&format!("mutation.{}", n.split('(').next().unwrap_or("")));
        }
        if raw.bytes.is_some() {
            st.class("mutation.byte-level");
        }
        // non-trivial: reaches the graph builder (well-typed at top level) but was not produced by the serialiser
        if !unchanged {
            if let Declared::Full(n, e) = reference_parse(Fmt::Json, &j) {
                st.class("document.mutated-but-well-typed");
                st.nontrivial(&(j.clone(), 0u8));
                let keys: BTreeSet<Key> = n.iter().map(|x| x.0).collect();
                if e.iter().any(|x| !keys.contains(&x.0) || !keys.contains(&x.1)) {
                    st.class("document.edge-names-undeclared-key");
                }
                if keys.len() < n.len() {
                    st.class("document.repeated-key");
                }
            }
        }
        if g.n >= 2 && raw.muts.len() >= 2 {
            st.sample_kind("mutated", 1, || json!({"mutations": format!("{:?}", raw.muts), "byte_level": format!("{:?}", raw.bytes), "json_text": String::from_utf8_lossy(&j)}));
        }
    }
    let a = run_doc(Fmt::Json, &j, st, counting, None, &doc);
    let b = run_doc(Fmt::Cbor, &c, st, counting, None, &doc);
    a && b
}

/// small synthetic documents, enumerated
fn synthetic() -> Vec<Value> {
    let mut v = vec![json!([]), json!([[]]), json!([[], []]), json!([[], [], []]), json!(null), json!(0), json!("x"), json!({}), json!([[[0, 0]], [[0, 0, 0]]]), json!([[[0, 0]], [[0, 1, 0]]]), json!([[[0, 0]], [[1, 0, 0]]]), json!([[[0, 0], [0, 5]], [[0, 0, 1]]]), json!([[[0, 0], [1, 1], [0, 9]], [[0, 1, 1], [1, 0, 2]]]), json!([[[1, 10], [1, 11]], [[1, 2, 5]]]), json!([[], [[1, 2, 5]]]), json!([[[1, 10]], [[1, 2, 5]]]), json!([[[0, 0]], null]), json!([null, []]), json!([[[0]], []]), json!([[[0, 0, 0]], []]), json!([[[0, 0]], [[0, 0]]]), json!([[[0, 0]], [[0, 0, 0, 0]]]), json!([[[70000, 0]], []]), json!([[[0, 3000000000u64]], []]), json!([[[-1, 0]], []]), json!([[[0, 0]], [[0, 0, -1]]])];
    // every ordered pair of node entries over keys {0,1} x values {0,1} with every edge over keys {0,1,2}
    for k1 in 0..2 {
        for k2 in 0..2 {
            for u in 0..3 {
                for w in 0..3 {
                    v.push(json!([[[k1, 0], [k2, 1]], [[u, w, 7]]]));
                    v.push(json!([[[k1, 0], [k2, 1]], [[u, w, 7], [w, u, 8]]]));
                }
            }
        }
    }
    v
}

pub fn fuzz_dir() -> std::path::PathBuf {
    verif_root().join("harness").join("fuzz")
}

/// run the libFuzzer target `deser` (see fuzzrun.rs) and judge its artifacts in child processes
fn run_fuzzer(ctx: &mut Ctx, runs: u64, jobs: usize) {
    let arts = crate::fuzzrun::campaign(ctx, "deser", Some("deser.dict"), 256, runs, jobs, &[]);
    for a in arts {
        judge_file_in_child(ctx, &a, "libFuzzer artifact");
    }
}

/// child: one proptest worker; stats go to `out`, the document in flight to `cur`
pub fn pt_child(seed: u64, stream: u64, cases: u32, out: &str, cur: &str) -> i32 {
    if let Ok(f) = std::fs::OpenOptions::new().create(true).write(true).truncate(true).open(cur) {
        BEACON.with(|b| *b.borrow_mut() = Some(f));
    }
    let mut st = Stats::new();
    {
        let cell = std::cell::RefCell::new(&mut st);
        let strat = rawdoc_strategy();
        let minimal = pt::run(seed, stream, cases, &strat, |raw, counting| {
            if counting {
                let mut st = cell.borrow_mut();
                run_raw(raw, &mut st, true)
            } else {
                let mut scratch = Stats::new();
                run_raw(raw, &mut scratch, false)
            }
        });
        drop(cell);
        if let Some(m) = minimal {
            let mut only = Stats::new();
            run_raw(&m, &mut only, false);
            for (sig, f) in only.findings {
                st.findings.insert(sig, f);
            }
        }
    }
    match std::fs::write(out, serde_json::to_vec(&st).unwrap_or_default()) {
        Ok(()) => 0,
        Err(_) => 2,
    }
}

/// child: one document ([sel][bytes] file, the fuzz input layout); prints a Stats JSON
pub fn one_child(path: &str) -> i32 {
    let data = std::fs::read(path).unwrap_or_default();
    if data.is_empty() {
        return 0;
    }
    let sel = data[0] as usize;
    let fmt = if (sel / 4) % 2 == 0 { Fmt::Json } else { Fmt::Cbor };
    let mut st = Stats::new();
    run_doc(fmt, &data[1..], &mut st, false, Some(FLAVOURS[sel % 4]), &json!({"document_file": path}));
    println!("{}", serde_json::to_string(&st).unwrap_or_default());
    if st.has_findings() {
        10
    } else {
        0
    }
}

/// runs `gv <args>` and returns (exit code or None when killed by a signal, stdout)
pub fn child(args: &[String], timeout_s: u64) -> (Option<i32>, String) {
    let Ok(exe) = std::env::current_exe() else { return (Some(2), String::new()) };
    let Ok(mut c) = std::process::Command::new(exe).args(args).stdout(std::process::Stdio::piped()).stderr(std::process::Stdio::null()).spawn() else { return (Some(2), String::new()) };
    let t0 = std::time::Instant::now();
    loop {
        match c.try_wait() {
            Ok(Some(_)) => break,
            Ok(None) if t0.elapsed().as_secs() > timeout_s => {
                let _ = c.kill();
                break;
            }
            Ok(None) => std::thread::sleep(std::time::Duration::from_millis(5)),
            Err(_) => break,
        }
    }
    match c.wait_with_output() {
        Ok(o) => (o.status.code(), String::from_utf8_lossy(&o.stdout).to_string()),
        Err(_) => (Some(2), String::new()),
    }
}

/// judge one [sel][document] file in a child process: a process that dies on it is a finding
fn judge_file_in_child(ctx: &mut Ctx, path: &std::path::Path, origin: &str) {
    let data = std::fs::read(path).unwrap_or_default();
    if data.is_empty() {
        return;
    }
    let (code, out) = child(&["C13-one".into(), path.display().to_string()], 60);
    match code {
        Some(0) => {
            if !path.display().to_string().contains("/oom-") {
                ctx.inconclusive.push(format!("{} {} does not reproduce in a fresh process", origin, path.display()))
            }
        }
        Some(10) => {
            if let Some(st) = out.lines().last().and_then(|l| serde_json::from_str::<Stats>(l).ok()) {
                ctx.stats.merge(st);
            }
        }
        other => {
            let sel = data[0] as usize;
            let fmt = if (sel / 4) % 2 == 0 { Fmt::Json } else { Fmt::Cbor };
            ctx.stats.report(Finding {
                property: "C13".into(),
                flavour: FLAVOURS[sel % 4].into(),
                clause: "deserialize.kills-the-process".into(),
                signature: format!("{} | {:?} | deserialize.kills-the-process", FLAVOURS[sel % 4], fmt),
                case: json!({"kind": "document", "flavour": FLAVOURS[sel % 4], "format": fmt, "bytes_hex": data[1..].iter().map(|b| format!("{:02x}", b)).collect::<String>(), "as_value": origin}),
                detail: format!("a fresh process handed this {}-byte document was terminated (exit {:?}: abort / allocation failure / stack overflow) instead of getting a result", data.len() - 1, other),
            });
        }
    }
}

pub fn run(ctx: &mut Ctx) {
    ctx.rule = "cases = (document bytes, flavour, format JSON/CBOR): (a) structural mutation with proptest: a valid document of a generated graph (<=8 nodes) with 0-3 mutations at the value level (drop / duplicate a node entry with another value, retarget an edge endpoint to an undeclared key, retype a field, change the top-level arity, swap lists, nest, change entry arity, duplicate an edge, out-of-range numbers, scalars) and optionally a byte flip / truncation, encoded as JSON and CBOR; (b) ~130 enumerated small synthetic documents; (c) coverage-guided libFuzzer target `deser` (ASan build, debug assertions; byte 0 selects flavour x format; the same oracle runs inside the target) from the committed seed corpus. Oracle: no panic; Err is always acceptable; if Ok(g): members keyed consistently, every edge ends at a member, mirror/symmetry invariant; when serde's own (Vec<(K,N)>, Vec<(K,K,E)>) impl accepts the document: an edge naming an undeclared key must have produced Err, every node of g has a declared key with a value declared for that key, g's edges are contained in the listed edges. Non-trivial = mutated document that is still well-typed at the top level (reaches the graph builder) — counted for the proptest part; distinct = hash of the JSON bytes.".into();
    ctx.assumptions = vec!["'what the document declares' = typed reference parse of the same bytes with serde's tuple/Vec impls, so number-width coercions cannot make the oracle disagree with serde".into(), "fuzz executions are counted into `evaluations`; libFuzzer campaigns are only approximately reproducible from the seed — the saved input is the reproducible unit".into()];
    let tier = ctx.tier;
    let seed = ctx.seed;
    let wd = ctx.watchdog.clone();
    // (b) synthetic
    let mut st = Stats::new();
    for d in synthetic() {
        let j = serde_json::to_vec(&d).unwrap();
        let c = serde_cbor::to_vec(&d).unwrap();
        st.class("document.synthetic");
        if let Declared::Full(..) = reference_parse(Fmt::Json, &j) {
            st.nontrivial(&(j.clone(), 1u8));
        }
        run_doc(Fmt::Json, &j, &mut st, true, None, &d);
        run_doc(Fmt::Cbor, &c, &mut st, true, None, &d);
    }
    st.sample_kind("synthetic", 1, || json!({"synthetic_document": synthetic()[12]}));
    ctx.stats.merge(st);
    // regression documents committed in the fuzz corpus are replayed by the fuzzer run itself
    // (a) proptest, in child processes: a document that aborts the process (allocation failure, stack
    // overflow) must not take the check down with it
    let cases = tier.pick(4000u32, 40_000u32);
    let nworkers = tier.pick(8usize, 16usize);
    let work = verif_root().join("out").join("c13");
    let _ = std::fs::create_dir_all(&work);
    let results: Vec<(usize, Option<i32>)> = std::thread::scope(|s| {
        let hs: Vec<_> = (0..nworkers)
            .map(|w| {
                let work = work.clone();
                s.spawn(move || {
                    let out = work.join(format!("pt{}.json", w));
                    let cur = work.join(format!("pt{}.cur", w));
                    let _ = std::fs::remove_file(&out);
                    let (code, _) = child(&["C13-pt".into(), seed.to_string(), (800 + w).to_string(), cases.to_string(), out.display().to_string(), cur.display().to_string()], 3600);
                    (w, code)
                })
            })
            .collect();
        hs.into_iter().map(|h| h.join().unwrap_or((0, Some(2)))).collect()
    });
    wd.tick();
    for (w, code) in results {
        let out = work.join(format!("pt{}.json", w));
        match (code, std::fs::read(&out).ok().and_then(|b| serde_json::from_slice::<Stats>(&b).ok())) {
            (Some(0), Some(st)) => ctx.stats.merge(st),
            (c, _) => {
                // the worker died: the document in flight is in its beacon file
                let cur = work.join(format!("pt{}.cur", w));
                match read_beacon(&cur) {
                    Some(doc) => {
                        let f = work.join(format!("pt{}.doc", w));
                        let _ = std::fs::write(&f, &doc);
                        judge_file_in_child(ctx, &f, &format!("proptest worker {} (exit {:?}) died on", w, c));
                    }
                    None => ctx.inconclusive.push(format!("proptest worker {} ended with {:?} and left no document", w, c)),
                }
            }
        }
    }
    // (c) fuzz
    run_fuzzer(ctx, tier.pick(240_000, 16_000_000), tier.pick(8, 16));
}

/// writes the seed corpus (valid documents of small graphs for every flavour x format + synthetic ones)
pub fn write_corpus() -> std::io::Result<usize> {
    let dir = fuzz_dir().join("corpus").join("deser");
    std::fs::create_dir_all(&dir)?;
    let mut n = 0;
    let mut put = |sel: u8, body: &[u8]| -> std::io::Result<()> {
        let mut v = vec![sel];
        v.extend_from_slice(body);
        n += 1;
        std::fs::write(dir.join(format!("seed-{:03}", n)), v)
    };
    let graphs = vec![
        GCase { n: 1, prio: vec![3], edges: vec![(0, 0, 1)] },
        GCase { n: 2, prio: vec![0, 1], edges: vec![(0, 1, 5), (0, 1, 6), (1, 0, 7)] },
        GCase { n: 3, prio: vec![2, 2, 9], edges: vec![(0, 1, 1), (1, 2, 2), (2, 0, 3), (2, 2, 4)] },
        GCase { n: 4, prio: vec![1, 2, 3, 4], edges: vec![] },
    ];
    for (gi, g) in graphs.iter().enumerate() {
        let d = valid_doc(g);
        for fl in 0..4u8 {
            if (gi + fl as usize) % 2 == 0 {
                put(fl, &serde_json::to_vec(&d).unwrap())?;
            } else {
                put(4 + fl, &serde_cbor::to_vec(&d).unwrap())?;
            }
        }
    }
    for (i, d) in synthetic().into_iter().take(26).enumerate() {
        put((i % 4) as u8, &serde_json::to_vec(&d).unwrap())?;
        put(4 + (i % 4) as u8, &serde_cbor::to_vec(&d).unwrap())?;
    }
    put(0, b"")?;
    Ok(n)
}

pub fn replay(v: &Value, st: &mut Stats) -> Result<(), String> {
    let hex = v["bytes_hex"].as_str().ok_or("no bytes_hex")?;
    let bytes: Vec<u8> = (0..hex.len() / 2).map(|i| u8::from_str_radix(&hex[2 * i..2 * i + 2], 16).unwrap_or(0)).collect();
    let fmt: Fmt = serde_json::from_value(v["format"].clone()).map_err(|e| e.to_string())?;
    run_doc(fmt, &bytes, st, true, v["flavour"].as_str(), &v["as_value"]);
    st.sample(|| json!({"replayed_document_hex": hex, "format": fmt}));
    Ok(())
}
