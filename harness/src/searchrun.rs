//! Generators and drivers for C04–C10 (see search.rs for execution and
//! oracles).
use crate::ctx::*;
use crate::flavour::*;
use crate::model::*;
use crate::pt;
use crate::search::*;
use crate::types::*;
use proptest::prelude::*;
use serde::{Deserialize, Serialize};
use serde_json::{json, Value};
use std::collections::BTreeSet;

#[derive(Clone, Debug, Serialize, Deserialize)]
pub struct SCase {
    pub g: GCase,
    pub root: Key,
    pub cell: Cell,
    pub meth: MethSpec,
}

/// cell templates (target filled in later) for a property
pub fn cells_for(prop: &str, directed: bool) -> Vec<Cell> {
    let trs: &[bool] = if directed { &[false, true] } else { &[false] };
    let mut v = vec![];
    let s = |algo, transposed, term| Cell::Search(SearchCfg { algo, transposed, term, target: None });
    let o = |ord, transposed, term| Cell::Order(OrderCfg { ord, transposed, term });
    match prop {
        "C04" => {
            for &t in trs {
                v.push(s(Algo::Bfs, t, Term::Search));
                v.push(s(Algo::Bfs, t, Term::Path));
            }
        }
        "C05" => {
            for &t in trs {
                v.push(s(Algo::Dfs, t, Term::Search));
                v.push(s(Algo::Dfs, t, Term::Path));
            }
        }
        "C06" => {
            for &t in trs {
                for a in [Algo::PfsMin, Algo::PfsMax] {
                    v.push(s(a, t, Term::Search));
                    v.push(s(a, t, Term::Path));
                }
            }
        }
        "C09" => {
            for &t in trs {
                for a in ALGOS {
                    v.push(s(a, t, Term::Cycle));
                }
            }
        }
        "C10" => {
            for &t in trs {
                for ord in [Ordk::Pre, Ordk::Post] {
                    v.push(o(ord, t, OTerm::Nodes));
                    v.push(o(ord, t, OTerm::Edges));
                }
            }
        }
        "C07" | "C08" => {
            let trs: &[bool] = if prop == "C08" { &[true, false] } else { trs };
            for &t in trs {
                for a in ALGOS {
                    for term in [Term::Search, Term::Path, Term::Cycle] {
                        v.push(s(a, t, term));
                    }
                }
                for ord in [Ordk::Pre, Ordk::Post] {
                    v.push(o(ord, t, OTerm::Nodes));
                    v.push(o(ord, t, OTerm::Edges));
                }
            }
        }
        _ => {}
    }
    v
}

pub fn with_target(cell: &Cell, target: Option<Key>) -> Cell {
    match cell {
        // (for search_cycle the target is an option the call must ignore: it looks for the root)
        Cell::Search(c) => Cell::Search(SearchCfg { target, ..*c }),
        c => c.clone(),
    }
}

fn signature(flavour: &str, cell: &Cell, meth: &MethSpec, clause: &str) -> String {
    format!("{} | {} | {}", flavour, cell.label(meth), clause)
}

/// Is this (graph, root, target, cell, meth) non-trivial for `prop`?
pub fn nontrivial(prop: &str, directed: bool, c: &SCase) -> bool {
    let view = c.g.view(directed, c.cell.transposed());
    let rej = c.meth.rejected();
    let acc = Acc { rejected: &rej };
    let none = BTreeSet::new();
    let acc_all = Acc { rejected: &none };
    let reach = view.reach(c.root, &acc);
    let reach_edges: usize = reach.iter().map(|&s| view.inc[s as usize].iter().filter(|&&(t, e)| acc.ok(s, t, e)).count()).sum();
    let branching = reach.iter().any(|&s| view.succ(s, &acc).into_iter().collect::<BTreeSet<_>>().len() >= 2);
    let extra_edges = reach_edges + 1 > reach.len();
    let filter_matters = !rej.is_empty() && view.dist(c.root, &acc) != view.dist(c.root, &acc_all);
    match (prop, &c.cell) {
        ("C04" | "C05" | "C06", Cell::Search(cfg)) => match cfg.target {
            Some(t) if t != c.root => {
                let reachable = reach.contains(&t);
                (reachable && extra_edges && branching) || (!reachable && !view.succ(c.root, &acc).is_empty()) || filter_matters
            }
            _ => false,
        },
        ("C07", _) => (branching && extra_edges) || filter_matters,
        ("C08", _) => {
            if !directed {
                return false;
            }
            let other = c.g.view(true, !c.cell.transposed());
            other.reach(c.root, &acc) != reach || other.inc[c.root as usize] != view.inc[c.root as usize]
        }
        ("C09", _) => {
            let cyc = view.cycle_len(c.root, &acc);
            match cyc {
                Some(_) => view.has_self_loop(c.root) || extra_edges,
                None => !view.succ(c.root, &acc).is_empty(),
            }
        }
        ("C10", _) => branching && reach.len() >= 3,
        _ => false,
    }
}

impl View {
    pub fn has_self_loop(&self, k: Key) -> bool {
        self.inc[k as usize].iter().any(|x| x.0 == k)
    }
}

/// run one fully specified case on flavour F and report what `prop` cares about
pub fn run_case<F: Flavour>(prop: &str, c: &SCase, st: &mut Stats, counting: bool) -> bool {
    let nodes = build::<F>(&c.g);
    run_case_on::<F>(prop, &nodes, c, st, counting)
}

pub fn run_case_on<F: Flavour>(prop: &str, nodes: &[F::Node], c: &SCase, st: &mut Stats, counting: bool) -> bool {
    let out = exec::<F>(nodes, c.root, &c.cell, &c.meth, budget_for(&c.g));
    // (C08 on very large graphs: orderings are compared with the same ordering on the reversed graph only)
    // (C10 keeps judging the preorders there: the discovery-order decider is linear)
    let fails = if c.g.n > 30_000 && matches!(&c.cell, Cell::Order(_)) && !(prop == "C10" && matches!(&c.cell, Cell::Order(o) if o.ord == Ordk::Pre)) { vec![] } else { judge(F::DIRECTED, &c.g, c.root, &c.cell, &c.meth, &out) };
    if counting {
        st.eval();
        st.class(&format!("cell.{}", c.cell.label(&c.meth)));
        if nontrivial(prop, F::DIRECTED, c) {
            st.nontrivial(&(F::NAME, &c.g, c.root, &c.cell, &c.meth));
            st.class("nontrivial-evaluations");
        }
    }
    let mut ok = true;
    for t in fails {
        if t.fail.clause == "UNDECIDED" {
            if counting {
                st.undecided += 1;
            }
            continue;
        }
        let mut relevant = t.props.contains(&prop);
        if prop == "C08" && !relevant && c.cell.transposed() && F::DIRECTED {
            // transposition-specific? the same cell, untransposed, on the
            // physically reversed graph must be free of this clause
            let (mg, mcell, mmeth) = mirror(c);
            let mnodes = build::<F>(&mg);
            let mout = exec::<F>(&mnodes, c.root, &mcell, &mmeth, budget_for(&mg));
            let mfails = judge(true, &mg, c.root, &mcell, &mmeth, &mout);
            relevant = !mfails.iter().any(|m| m.fail.clause == t.fail.clause);
            if counting {
                st.class(if relevant { "c08.transposition-specific-failure" } else { "c08.failure-also-on-reversed-graph(not C08)" });
            }
        }
        if relevant {
            ok = false;
            st.report(Finding {
                property: prop.into(),
                flavour: F::NAME.into(),
                clause: t.fail.clause.into(),
                signature: signature(F::NAME, &c.cell, &c.meth, t.fail.clause),
                case: json!({"kind": "search", "flavour": F::NAME, "g": c.g, "root": c.root, "cell": c.cell, "meth": c.meth, "observed": {"found": out.found, "path": out.path, "nodes": out.nodes, "edges": out.edges, "calls": out.calls}}),
                detail: t.fail.detail,
            });
        }
    }
    if prop == "C08" && c.cell.transposed() && F::DIRECTED {
        // metamorphic: the identical observable result on the physically reversed graph (same insertion order, so the
        // reversed graph's out-lists are this graph's in-lists and every deterministic choice is the same)
        let (mg, mcell, mmeth) = mirror(c);
        let mnodes = build::<F>(&mg);
        let mout = exec::<F>(&mnodes, c.root, &mcell, &mmeth, budget_for(&mg));
        let same = mout.found == out.found && mout.path == out.path && mout.nodes == out.nodes && mout.edges == out.edges && mout.calls == out.calls && mout.panic.is_some() == out.panic.is_some() && mout.final_prio == out.final_prio && mout.over_budget == out.over_budget;
        if counting {
            st.class(if same { "c08.metamorphic.identical-on-reversed-graph" } else { "c08.metamorphic.differs-on-reversed-graph" });
        }
        if !same && ok {
            ok = false;
            let clause = "transpose.differs-from-the-same-operation-on-the-reversed-graph";
            st.report(Finding {
                property: prop.into(),
                flavour: F::NAME.into(),
                clause: clause.into(),
                signature: signature(F::NAME, &c.cell, &c.meth, clause),
                case: json!({"kind": "search", "flavour": F::NAME, "g": c.g, "root": c.root, "cell": c.cell, "meth": c.meth, "observed": {"found": out.found, "path": out.path, "nodes": out.nodes, "edges": out.edges, "calls": out.calls, "final_values": out.final_prio}, "on_reversed_graph": {"found": mout.found, "path": mout.path, "nodes": mout.nodes, "edges": mout.edges, "calls": mout.calls, "final_values": mout.final_prio}}),
                detail: "the transposed operation and the plain operation on the edge-reversed graph (same insertion order) give different observable results".into(),
            });
        }
    }
    ok
}

/// the same cell without transpose() on the graph with every edge reversed
/// (same insertion order, so the reversed graph's out-lists are this
/// graph's in-lists); rejected triples are already in traversal orientation
pub fn mirror(c: &SCase) -> (GCase, Cell, MethSpec) {
    let g = GCase { n: c.g.n, prio: c.g.prio.clone(), edges: c.g.edges.iter().map(|&(u, v, e)| (v, u, e)).collect() };
    let cell = match &c.cell {
        Cell::Search(s) => Cell::Search(SearchCfg { transposed: false, ..*s }),
        Cell::Order(o) => Cell::Order(OrderCfg { transposed: false, ..*o }),
    };
    // the nested-search predicate follows plain edges, which are reversed in the mirrored graph: use its rejected set
    let meth = match &c.meth {
        MethSpec::FilterNested(_, _, rej) => MethSpec::Filter(rej.clone()),
        m => m.clone(),
    };
    (g, cell, meth)
}

/// the same search object used twice with the graph's last edge connected in between
pub fn run_reuse<F: Flavour>(prop: &str, g: &GCase, root: Key, cell: &Cell, st: &mut Stats, counting: bool) -> bool {
    if let Cell::Search(c) = cell {
        if c.term != Term::Path {
            // search() / search_cycle() after a search_path() on the same object
            let nodes = build::<F>(g);
            let out = exec_after_path::<F>(&nodes, root, c);
            if counting {
                st.eval();
                st.class("reuse.other-terminal-after-search_path-on-the-same-object");
            }
            let mut ok = true;
            for t in judge(F::DIRECTED, g, root, cell, &MethSpec::None, &out) {
                if t.fail.clause == "UNDECIDED" || !t.props.contains(&prop) {
                    continue;
                }
                ok = false;
                let clause = "reuse.answer-after-search_path-on-the-same-object-wrong";
                st.report(Finding {
                    property: prop.into(),
                    flavour: F::NAME.into(),
                    clause: clause.into(),
                    signature: signature(F::NAME, cell, &MethSpec::None, clause),
                    case: json!({"kind": "search-reuse", "flavour": F::NAME, "g": g, "root": root, "cell": cell, "note": "search_path() was called first on the same search object", "observed": {"found": out.found, "path": out.path}}),
                    detail: format!("{}: {}", t.fail.clause, t.fail.detail),
                });
            }
            return ok;
        }
    }
    let Some((g0, outs)) = exec_reuse::<F>(g, root, cell) else { return true };
    if counting {
        st.eval();
        st.class(if outs.len() > 2 { "reuse.same-object-asked-four-times-with-an-edge-added-removed-added" } else { "reuse.same-object-asked-twice-with-an-edge-added-in-between" });
    }
    let mut ok = true;
    let names = ["first", "second", "third", "fourth"];
    for (i, out) in outs.iter().enumerate() {
        let (which, gg) = (names[i.min(3)], if i % 2 == 0 { &g0 } else { g });
        for t in judge(F::DIRECTED, gg, root, cell, &MethSpec::None, out) {
            if t.fail.clause == "UNDECIDED" || !t.props.contains(&prop) {
                continue;
            }
            ok = false;
            let clause: &'static str = match i {
                0 => t.fail.clause,
                1 => "reuse.second-answer-of-the-same-object-wrong",
                _ => "reuse.later-answer-of-the-same-object-wrong",
            };
            st.report(Finding {
                property: prop.into(),
                flavour: F::NAME.into(),
                clause: clause.into(),
                signature: signature(F::NAME, cell, &MethSpec::None, clause),
                case: json!({"kind": "search-reuse", "flavour": F::NAME, "g": g, "root": root, "cell": cell, "note": "search object created on g without its last edge and asked; then the last edge is connected / disconnected / connected with the same object asked after each change", "observed": outs.iter().map(|o| json!({"path": o.path, "nodes": o.nodes, "edges": o.edges})).collect::<Vec<_>>()}),
                detail: format!("{} call: {}: {}", which, t.fail.clause, t.fail.detail),
            });
            break;
        }
        if !ok {
            break;
        }
    }
    ok
}

/// (root, target, method) combinations for one graph, one flavour family.
struct Combos {
    roots: Vec<Key>,
    /// per root
    targets: Vec<Option<Key>>,
    meths: Vec<MethSpec>,
}

fn filters_for(g: &GCase, directed: bool, transposed: bool, all_subsets: bool) -> Vec<MethSpec> {
    let view = g.view(directed, transposed);
    let mut tris: Vec<Tri> = vec![];
    for s in 0..view.n {
        for &(t, e) in &view.inc[s] {
            tris.push((s as Key, t, e));
        }
    }
    let mut v = vec![];
    if all_subsets && tris.len() <= 8 {
        for mask in 0u32..(1u32 << tris.len()) {
            v.push(MethSpec::Filter(tris.iter().enumerate().filter(|(i, _)| mask >> i & 1 == 1).map(|x| *x.1).collect()));
        }
    } else {
        v.push(MethSpec::Filter(BTreeSet::new()));
        for t in &tris {
            v.push(MethSpec::Filter(BTreeSet::from([*t])));
        }
    }
    v
}

fn exhaustive_graph<F: Flavour>(prop: &str, g: &GCase, st: &mut Stats, all_subsets: bool) {
    let nodes = build::<F>(g);
    for cell in cells_for(prop, F::DIRECTED) {
        let mut meths = vec![MethSpec::None, MethSpec::ForEach];
        meths.extend(filters_for(g, F::DIRECTED, cell.transposed(), all_subsets));
        for algo in [Algo::Bfs, Algo::Dfs, Algo::PfsMin] {
            for k in 0..g.n as Key {
                meths.push(nested_filter(g, F::DIRECTED, cell.transposed(), algo, k));
            }
        }
        if prop == "C08" {
            meths.push(MethSpec::Relax);
        }
        let combos = Combos {
            roots: (0..g.n as Key).collect(),
            targets: {
                let mut t: Vec<Option<Key>> = (0..=g.n as Key).map(Some).collect();
                if matches!(prop, "C07" | "C08") {
                    t.push(None);
                }
                t
            },
            meths,
        };
        for &root in &combos.roots {
            let tlist: Vec<Option<Key>> = match &cell {
                Cell::Search(c) if c.term != Term::Cycle => combos.targets.iter().cloned().filter(|t| *t != Some(root)).collect(),
                // search_cycle looks for the root whatever target() was given before
                Cell::Search(_) => vec![None, Some(((root as usize + 1) % g.n.max(1)) as Key)],
                _ => vec![None],
            };
            for t in tlist {
                let cell = with_target(&cell, t);
                for m in &combos.meths {
                    let c = SCase { g: g.clone(), root, cell: cell.clone(), meth: m.clone() };
                    run_case_on::<F>(prop, &nodes, &c, st, true);
                }
                if prop != "C07" && prop != "C08" {
                    run_reuse::<F>(prop, g, root, &cell, st, true);
                }
            }
        }
    }
}

/// all ordered multigraphs on `n` nodes with exactly `m` edges: edge i gets value 100+i
pub fn graphs_exact(n: usize, m: usize, mut f: impl FnMut(&GCase)) {
    let pairs = n * n;
    let mut idx = vec![0usize; m];
    loop {
        let edges: Vec<Tri> = idx.iter().enumerate().map(|(i, &p)| ((p / n) as Key, (p % n) as Key, 100 + i as EV)).collect();
        f(&GCase { n, prio: (0..n as i32).map(|i| i % 3).collect(), edges });
        let mut k = 0;
        loop {
            if k == m {
                return;
            }
            idx[k] += 1;
            if idx[k] < pairs {
                break;
            }
            idx[k] = 0;
            k += 1;
        }
    }
}

pub fn count_graphs(n: usize, m: usize) -> u64 {
    ((n * n) as u64).pow(m as u32)
}

/// Two root->target paths of different length in every insertion order.
pub fn two_path_family(max_edges: usize, mut f: impl FnMut(&GCase)) {
    for long in 2..=5usize {
        for short in 1..long {
            if long + short > max_edges {
                continue;
            }
            // nodes: 0 = root, then long-1 inner nodes, then short-1 inner nodes, last = target
            let n = 1 + (long - 1) + (short - 1) + 1;
            let t = (n - 1) as Key;
            let mut base: Vec<(Key, Key)> = vec![];
            let mut prev = 0 as Key;
            let mut next = 1 as Key;
            for _ in 0..long - 1 {
                base.push((prev, next));
                prev = next;
                next += 1;
            }
            base.push((prev, t));
            prev = 0;
            for _ in 0..short - 1 {
                base.push((prev, next));
                prev = next;
                next += 1;
            }
            base.push((prev, t));
            // Heap's algorithm over the edge order
            let m = base.len();
            let mut perm: Vec<usize> = (0..m).collect();
            let mut c = vec![0usize; m];
            let emit = |perm: &Vec<usize>, f: &mut dyn FnMut(&GCase)| {
                let edges: Vec<Tri> = perm.iter().enumerate().map(|(i, &p)| (base[p].0, base[p].1, 100 + i as EV)).collect();
                f(&GCase { n, prio: (0..n as i32).map(|i| (i * 7 + 1) % 3).collect(), edges });
            };
            emit(&perm, &mut f);
            let mut i = 0;
            while i < m {
                if c[i] < i {
                    if i % 2 == 0 {
                        perm.swap(0, i);
                    } else {
                        perm.swap(c[i], i);
                    }
                    emit(&perm, &mut f);
                    c[i] += 1;
                    i = 0;
                } else {
                    c[i] = 0;
                    i += 1;
                }
            }
        }
    }
}

/// Large constructed graphs: thresholds inside the implementation (inline
/// buffers, capacity growth, recursion depth) are invisible on small graphs.
/// Sizes straddle powers of two; shapes: ring with a chord, path with skip
/// edges, bidirectional grid, hub with back edges, long chain into a cycle.
pub fn big_family(sizes: &[usize], mut f: impl FnMut(&GCase, Key, Key)) {
    for &n in sizes {
        let mut id = 100u32;
        let mut mk = |pairs: Vec<(usize, usize)>| -> Vec<Tri> {
            pairs
                .into_iter()
                .map(|(u, v)| {
                    id += 1;
                    (u as Key, v as Key, id)
                })
                .collect()
        };
        let prio = |n: usize| -> Vec<i32> { (0..n).map(|i| ((i * 7) % 5) as i32).collect() };
        // ring + chord back into the middle + parallel edge near the end
        let mut ring: Vec<(usize, usize)> = (0..n).map(|i| (i, (i + 1) % n)).collect();
        ring.push((n - 1, n / 2));
        ring.push((n - 2, n - 1));
        f(&GCase { n, prio: prio(n), edges: mk(ring) }, 0, (n - 1) as Key);
        // path with skip edges i -> i+2 and a late back edge
        let mut path: Vec<(usize, usize)> = (0..n - 1).map(|i| (i, i + 1)).collect();
        path.extend((0..n - 2).map(|i| (i, i + 2)));
        path.push((n - 1, n - 3));
        f(&GCase { n, prio: prio(n), edges: mk(path) }, 0, (n - 1) as Key);
        // k x k grid, edges in both directions
        let k = (n as f64).sqrt() as usize;
        if k >= 3 {
            let mut g: Vec<(usize, usize)> = vec![];
            for r in 0..k {
                for c in 0..k {
                    if c + 1 < k {
                        g.push((r * k + c, r * k + c + 1));
                        g.push((r * k + c + 1, r * k + c));
                    }
                    if r + 1 < k {
                        g.push((r * k + c, (r + 1) * k + c));
                        g.push(((r + 1) * k + c, r * k + c));
                    }
                }
            }
            f(&GCase { n: k * k, prio: prio(k * k), edges: mk(g) }, 0, (k * k - 1) as Key);
        }
        // hub: 0 -> everybody, everybody -> 0, plus a chain among the spokes
        let mut hub: Vec<(usize, usize)> = (1..n).map(|i| (0, i)).collect();
        hub.extend((1..n).map(|i| (i, 0)));
        hub.extend((1..n - 1).map(|i| (i, i + 1)));
        f(&GCase { n, prio: prio(n), edges: mk(hub) }, 0, (n - 1) as Key);
        // long tail into a small cycle with a self-loop
        let mut tail: Vec<(usize, usize)> = (0..n - 1).map(|i| (i, i + 1)).collect();
        tail.push((n - 1, n - 4));
        tail.push((n - 2, n - 2));
        f(&GCase { n, prio: prio(n), edges: mk(tail) }, 0, (n - 2) as Key);
        // fan: root -> spokes 1..=k in order, a chain among the spokes (every spoke is reached a second time
        // from its predecessor on the same level), one private child per spoke; targets = children of the
        // spokes whose discovery index sits on either side of a power of two
        let k = (n - 1) / 2;
        if k >= 4 {
            let mut fan: Vec<(usize, usize)> = (1..=k).map(|i| (0, i)).collect();
            fan.extend((1..k).map(|i| (i, i + 1)));
            fan.extend((1..=k).map(|i| (i, k + i)));
            let g = GCase { n: 2 * k + 1, prio: vec![0; 2 * k + 1], edges: mk(fan) };
            let mut spokes: BTreeSet<usize> = BTreeSet::new();
            let mut p = 4usize;
            while p <= k + 2 {
                for d in [p - 2, p - 1, p, p + 1, p + 2] {
                    if d >= 1 && d <= k {
                        spokes.insert(d);
                    }
                }
                p *= 2;
            }
            spokes.insert(k);
            for sp in spokes {
                f(&g, 0, (k + sp) as Key);
            }
        }
    }
}

// ---------------------------------------------------------------- random

#[derive(Clone, Debug)]
pub struct RawG {
    pub n: usize,
    pub edges: Vec<(u16, u16, u8, u8)>,
    pub pself: u8,
    pub ppar: u8,
    pub prio: Vec<u8>,
    pub prange: u8,
    pub dup_values: bool,
    pub root: u16,
    pub target: u16,
    pub guided: u8,
    pub filt_pct: u8,
    pub coins: Vec<u8>,
}

pub fn rawg_strategy(max_n: usize) -> impl Strategy<Value = RawG> {
    (prop_oneof![4 => 1usize..=6.min(max_n), 3 => 2usize.min(max_n)..=12.min(max_n), 1 => 10usize.min(max_n)..=max_n], 0u8..30, 0u8..40, 1u8..=4, any::<bool>(), any::<u16>(), any::<u16>(), 0u8..100, prop_oneof![Just(0u8), Just(10u8), Just(25u8), Just(50u8)]).prop_flat_map(|(n, pself, ppar, prange, dup_values, root, target, guided, filt_pct)| {
        let maxm = (2 * n + 3).min(70);
        (proptest::collection::vec((any::<u16>(), any::<u16>(), 0u8..100, 0u8..100), 0..=maxm), proptest::collection::vec(0u8..prange, n), proptest::collection::vec(0u8..100, 0..=maxm * 2 + 2)).prop_map(move |(edges, prio, coins)| RawG { n, edges, pself, ppar, prio, prange, dup_values, root, target, guided, filt_pct, coins })
    })
}

impl RawG {
    pub fn graph(&self) -> GCase {
        let n = self.n;
        let mut edges: Vec<Tri> = vec![];
        for (i, &(u, v, c1, c2)) in self.edges.iter().enumerate() {
            let val = if self.dup_values { (i % 3) as EV } else { 100 + i as EV };
            if c2 < self.ppar && !edges.is_empty() {
                let (a, b, _) = edges[pt::idx(v, edges.len())];
                edges.push((a, b, val));
                continue;
            }
            let ui = pt::idx(u, n) as Key;
            let vi = if c1 < self.pself { ui } else { pt::idx(v, n) as Key };
            edges.push((ui, vi, val));
        }
        GCase { n, prio: self.prio.iter().map(|&p| p as i32).collect(), edges }
    }
    /// root/target: with probability 0.6 steer towards a pair for which a
    /// longer-than-shortest route exists (or an unreachable target with a
    /// non-empty frontier); else uniform, target may be absent (= n)
    pub fn root_target(&self, g: &GCase, directed: bool, transposed: bool) -> (Key, Key) {
        let n = g.n;
        let root = pt::idx(self.root, n) as Key;
        let target = pt::idx(self.target, n + 1) as Key;
        if self.guided >= 60 || n < 3 {
            return (root, target);
        }
        let view = g.view(directed, transposed);
        let none = BTreeSet::new();
        let acc = Acc { rejected: &none };
        // candidates: pairs (r, t) with t reachable at distance >= 2, or at distance 1 with in-degree >= 2
        let mut cands = vec![];
        for r in 0..n as Key {
            let d = view.dist(r, &acc);
            for t in 0..n as Key {
                if t != r {
                    if let Some(dt) = d[t as usize] {
                        let indeg = (0..n).filter(|&s| d[s].is_some() && view.inc[s].iter().any(|x| x.0 == t)).count();
                        if indeg >= 2 || dt >= 2 {
                            cands.push((r, t));
                        }
                    }
                }
            }
        }
        if cands.is_empty() {
            (root, target)
        } else {
            cands[pt::idx(self.target, cands.len())]
        }
    }
    pub fn filter(&self, g: &GCase, directed: bool, transposed: bool) -> MethSpec {
        let view = g.view(directed, transposed);
        let mut rej = BTreeSet::new();
        let mut i = 0;
        for s in 0..view.n {
            for &(t, e) in &view.inc[s] {
                let coin = self.coins.get(i).cloned().unwrap_or(99);
                i += 1;
                if coin < self.filt_pct {
                    rej.insert((s as Key, t, e));
                }
            }
        }
        MethSpec::Filter(rej)
    }
}

/// all cells of `prop` on one random graph, every applicable flavour
pub fn run_raw(prop: &str, raw: &RawG, st: &mut Stats, counting: bool) -> bool {
    let g = raw.graph();
    let mut ok = true;
    macro_rules! fl {
        ($F:ty) => {{
            let nodes = build::<$F>(&g);
            for cell in cells_for(prop, <$F>::DIRECTED) {
                let (root, target) = raw.root_target(&g, <$F>::DIRECTED, cell.transposed());
                let targets: Vec<Option<Key>> = match &cell {
                    Cell::Search(c) if c.term != Term::Cycle => {
                        if matches!(prop, "C07" | "C08") {
                            vec![None, Some(target)]
                        } else {
                            vec![Some(target)]
                        }
                    }
                    Cell::Search(_) => vec![None, Some(target)],
                    _ => vec![None],
                };
                for t in targets {
                    let cell = with_target(&cell, t);
                    let nalgo = [Algo::Bfs, Algo::Dfs, Algo::PfsMin, Algo::PfsMax][raw.coins.first().cloned().unwrap_or(0) as usize % 4];
                    let nk = pt::idx(raw.target ^ 0x5555, g.n) as Key;
                    let mut ms = vec![MethSpec::None, MethSpec::ForEach, raw.filter(&g, <$F>::DIRECTED, cell.transposed()), nested_filter(&g, <$F>::DIRECTED, cell.transposed(), nalgo, nk)];
                    if prop == "C08" {
                        ms.push(MethSpec::Relax);
                    }
                    for m in ms {
                        let c = SCase { g: g.clone(), root, cell: cell.clone(), meth: m };
                        if !run_case_on::<$F>(prop, &nodes, &c, st, counting) {
                            ok = false;
                        }
                    }
                    if prop != "C07" && prop != "C08" && !run_reuse::<$F>(prop, &g, root, &cell, st, counting) {
                        ok = false;
                    }
                }
            }
        }};
    }
    fl!(Di);
    fl!(SDi);
    if prop != "C08" {
        fl!(Un);
        fl!(SUn);
    }
    ok
}

pub fn replay(prop: &str, v: &Value, st: &mut Stats) -> Result<(), String> {
    if v["kind"] == "search-reuse" {
        let g: GCase = serde_json::from_value(v["g"].clone()).map_err(|e| e.to_string())?;
        let cell: Cell = serde_json::from_value(v["cell"].clone()).map_err(|e| e.to_string())?;
        let root = v["root"].as_u64().unwrap_or(0) as Key;
        if g.prio.len() != g.n || root as usize >= g.n || g.edges.iter().any(|e| e.0 as usize >= g.n || e.1 as usize >= g.n) {
            return Err("malformed graph case".into());
        }
        let only = v["flavour"].as_str();
        macro_rules! go {
            ($F:ty) => {
                if only.map_or(true, |o| o == <$F>::NAME) && (<$F>::DIRECTED || !cell.transposed()) {
                    run_reuse::<$F>(prop, &g, root, &cell, st, true);
                }
            };
        }
        go!(Di);
        go!(SDi);
        go!(Un);
        go!(SUn);
        st.sample(|| json!({"replayed_reuse": {"g": g, "root": root, "cell": cell}}));
        return Ok(());
    }
    let c: SCase = serde_json::from_value(json!({"g": v["g"], "root": v["root"], "cell": v["cell"], "meth": v["meth"]})).map_err(|e| e.to_string())?;
    if c.g.prio.len() != c.g.n || c.g.edges.iter().any(|e| e.0 as usize >= c.g.n || e.1 as usize >= c.g.n) || c.root as usize >= c.g.n {
        return Err("malformed graph case".into());
    }
    let only = v["flavour"].as_str();
    let directed_cell = c.cell.transposed();
    macro_rules! go {
        ($F:ty) => {
            if only.map_or(true, |o| o == <$F>::NAME) && (<$F>::DIRECTED || !directed_cell) {
                run_case::<$F>(prop, &c, st, true);
            }
        };
    }
    go!(Di);
    go!(SDi);
    go!(Un);
    go!(SUn);
    st.sample(|| json!({"replayed": {"g": c.g, "root": c.root, "cell": c.cell, "meth": c.meth}}));
    Ok(())
}

/// thorough tier: the order deciders against brute-force enumeration of all DFS runs
pub fn validate_deciders(st: &mut Stats) -> Result<(), String> {
    let none = BTreeSet::new();
    let acc = Acc { rejected: &none };
    let mut pairs = 0u64;
    let mut check = |g: &GCase| -> Result<(), String> {
        let view = g.view_directed(false);
        for root in 0..g.n as Key {
            let (pres, posts) = all_dfs_orders(&view, &acc, root);
            let reach: Vec<Key> = view.reach(root, &acc).into_iter().collect();
            // every permutation of the reachable set
            let mut perm = reach.clone();
            let mut c = vec![0usize; perm.len()];
            let mut test = |p: &Vec<Key>| -> Result<(), String> {
                pairs += 2;
                let vp = valid_pre(&view, &acc, root, p).is_ok();
                if vp != pres.contains(p) {
                    return Err(format!("valid_pre disagrees with brute force on {:?} root {} order {:?}", g, root, p));
                }
                let vq = matches!(valid_post(&view, &acc, root, p), PostVerdict::Valid);
                if vq != posts.contains(p) {
                    return Err(format!("valid_post disagrees with brute force on {:?} root {} order {:?}", g, root, p));
                }
                Ok(())
            };
            test(&perm)?;
            let mut i = 0;
            while i < perm.len() {
                if c[i] < i {
                    if i % 2 == 0 {
                        perm.swap(0, i);
                    } else {
                        perm.swap(c[i], i);
                    }
                    test(&perm)?;
                    c[i] += 1;
                    i = 0;
                } else {
                    c[i] = 0;
                    i += 1;
                }
            }
        }
        Ok(())
    };
    // all simple digraphs (with self-loops) on <= 3 nodes as edge subsets
    for n in 1..=3usize {
        for mask in 0u32..(1 << (n * n)) {
            let edges: Vec<Tri> = (0..n * n).filter(|i| mask >> i & 1 == 1).map(|i| ((i / n) as Key, (i % n) as Key, 100 + i as EV)).collect();
            check(&GCase { n, prio: vec![0; n], edges })?;
        }
    }
    // a deterministic sample of 4-6 node digraphs
    let mut x = 0x2545F4914F6CDD1Du64;
    let mut rnd = move |k: usize| {
        x ^= x << 13;
        x ^= x >> 7;
        x ^= x << 17;
        (x % k as u64) as usize
    };
    for _ in 0..600 {
        let n = 4 + rnd(3);
        let m = rnd(2 * n + 2);
        let edges: Vec<Tri> = (0..m).map(|i| (rnd(n) as Key, rnd(n) as Key, 100 + i as EV)).collect();
        check(&GCase { n, prio: vec![0; n], edges })?;
    }
    // scc models against each other
    for _ in 0..3000 {
        let n = 1 + rnd(7);
        let m = rnd(2 * n + 2);
        let edges: Vec<Tri> = (0..m).map(|i| (rnd(n) as Key, rnd(n) as Key, i as EV)).collect();
        if scc_model(n, &edges) != scc_tarjan(n, &edges) {
            return Err(format!("scc_model != scc_tarjan on n={} {:?}", n, edges));
        }
    }
    st.extra.insert("decider_validation_pairs".into(), json!(pairs));
    Ok(())
}

pub fn run(prop: &'static str, ctx: &mut Ctx) {
    ctx.rule = format!("cases = (graph as ordered edge list, root, target, search configuration cell, closure kind/filter) run on every applicable flavour; generators: (a) all ordered multigraphs on <=N nodes with <=M edges x all roots x all targets (incl. an absent key) x {{none, for_each, filters}} — bounds in `enumeration_bounds`; (b) the constructed two-path family in every insertion order; (c) proptest graphs up to 40 nodes with shape knobs (self-loops, parallel edges, equal/distinct values, priority ties), model-guided root/target, random rejected-edge sets, whole cell matrix of the property per graph. Non-trivial for {}: see DESIGN.md section 4.{}; distinct = hash of (flavour, graph, root, cell, closure).", prop, prop);
    ctx.assumptions = vec!["graphs are built with connect() in list order; C01/C02 establish that the lists then mirror the model".into(), "closure call budget 4*|E|+16 turns non-termination into an observation".into()];
    let tier = ctx.tier;
    let seed = ctx.seed;
    let wd = ctx.watchdog.clone();
    if tier == Tier::Thorough {
        let mut st = Stats::new();
        if let Err(e) = validate_deciders(&mut st) {
            ctx.inconclusive.push(format!("oracle self-validation failed: {}", e));
        }
        ctx.stats.merge(st);
    }
    // (a) exhaustive small scope; bounds per property chosen by cost of the cell matrix
    let all_subsets = prop == "C07";
    let heavy = matches!(prop, "C07" | "C08");
    let bounds: Vec<(usize, usize)> = match (tier, heavy) {
        (Tier::Quick, false) => vec![(1, 3), (2, 4), (3, 4), (4, 2)],
        (Tier::Quick, true) => vec![(1, 3), (2, 3), (3, 3)],
        (Tier::Thorough, false) => vec![(1, 4), (2, 5), (3, 5), (4, 4), (5, 3)],
        (Tier::Thorough, true) => vec![(1, 3), (2, 4), (3, 4), (4, 3)],
    };
    // C06 additionally enumerates every priority assignment from {0,1,2}^n on the smaller bounds
    let prio_bounds: Vec<(usize, usize)> = if prop == "C06" { tier.pick(vec![(2, 3), (3, 3)], vec![(2, 4), (3, 4), (4, 3)]) } else { vec![] };
    let workers = 16usize;
    let enumerated = parallel(workers, |w| {
        let mut st = Stats::new();
        let mut i = 0u64;
        for &(n, maxm) in &prio_bounds {
            for m in 1..=maxm {
                graphs_exact(n, m, |g0| {
                    for code in 0..3usize.pow(n as u32) {
                        i += 1;
                        if i % workers as u64 != w as u64 {
                            continue;
                        }
                        wd.tick();
                        let mut g = g0.clone();
                        let mut c = code;
                        for k in 0..n {
                            g.prio[k] = (c % 3) as i32;
                            c /= 3;
                        }
                        st.class("graphs.enumerated-with-priorities");
                        if m >= 3 && code == 5 {
                            st.sample_kind("enumerated-prio", 1, || json!({"enumerated_graph_with_priorities": g}));
                        }
                        exhaustive_graph::<Di>(prop, &g, &mut st, false);
                        exhaustive_graph::<SDi>(prop, &g, &mut st, false);
                        exhaustive_graph::<Un>(prop, &g, &mut st, false);
                        exhaustive_graph::<SUn>(prop, &g, &mut st, false);
                    }
                });
            }
        }
        for &(n, maxm) in &bounds {
            for m in 0..=maxm {
                graphs_exact(n, m, |g| {
                    i += 1;
                    if i % workers as u64 != w as u64 {
                        return;
                    }
                    wd.tick();
                    st.class("graphs.enumerated");
                    if g.edges.len() >= 2 {
                        st.sample_kind("enumerated", 1, || json!({"enumerated_graph": g, "run_with": "every root x every target x every cell of the property x {none, for_each, filters}"}));
                    }
                    exhaustive_graph::<Di>(prop, g, &mut st, all_subsets);
                    exhaustive_graph::<SDi>(prop, g, &mut st, all_subsets);
                    if prop != "C08" {
                        exhaustive_graph::<Un>(prop, g, &mut st, all_subsets);
                        exhaustive_graph::<SUn>(prop, g, &mut st, all_subsets);
                    }
                });
            }
        }
        // (b) two-path family
        let mut j = 0u64;
        two_path_family(tier.pick(6, 7), |g| {
            j += 1;
            if j % workers as u64 != w as u64 {
                return;
            }
            wd.tick();
            st.class("graphs.two-path-family");
            st.sample_kind("two-path", 1, || json!({"two_path_graph": g, "root": 0, "target": g.n - 1}));
            let t = (g.n - 1) as Key;
            macro_rules! fl {
                ($F:ty) => {{
                    let nodes = build::<$F>(g);
                    for cell in cells_for(prop, <$F>::DIRECTED) {
                        // forward cells search 0 -> t, transposed cells t -> 0
                        let (root, target) = if cell.transposed() { (t, 0) } else { (0, t) };
                        let cell = with_target(&cell, Some(target));
                        for m in [MethSpec::None, MethSpec::ForEach, MethSpec::Filter(BTreeSet::new())] {
                            let c = SCase { g: g.clone(), root, cell: cell.clone(), meth: m };
                            run_case_on::<$F>(prop, &nodes, &c, &mut st, true);
                        }
                    }
                }};
            }
            fl!(Di);
            fl!(SDi);
            if prop != "C08" {
                fl!(Un);
                fl!(SUn);
            }
        });
        st
    });
    let enum_failed = enumerated.has_findings();
    ctx.stats.merge(enumerated);
    ctx.exhaustive = Some(!enum_failed);
    // (b2) large constructed graphs
    let sizes: Vec<usize> = tier.pick(vec![9, 17, 33, 65, 130, 300, 1100], vec![9, 17, 33, 65, 129, 130, 260, 520, 1030, 2300, 4200]);
    let mut bigs: Vec<(GCase, Key, Key)> = vec![];
    big_family(&sizes, |g, r, t| bigs.push((g.clone(), r, t)));
    // deep chains (recursion depth of the recursive traversals, thresholds in the thousands): a path with one skip
    // edge at the start, closed into a ring; plain cells search 0 -> n-1, transposed ones n-1 -> 0
    // (the priority-order oracle is quadratic in the chain length: C06 keeps the short chain only)
    let deep_sizes: Vec<usize> = if prop == "C06" { vec![5000] } else { tier.pick(vec![5000, 20_000, 70_000], vec![5000, 9000, 20_000, 40_000, 70_000, 140_000]) };
    for &n in &deep_sizes {
        let mut e: Vec<Tri> = (0..n - 1).map(|i| (i as Key, (i + 1) as Key, 7 + (i % 3) as EV)).collect();
        e.push((0, 2, 1));
        // closed into a ring: the only cycle through the far end is n edges long
        e.push(((n - 1) as Key, 0, 4));
        bigs.push((GCase { n, prio: (0..n).map(|i| ((i * 7) % 5) as i32).collect(), edges: e }, 0, (n - 1) as Key));
    }
    ctx.stats.extra.insert("deep_chain_sizes".into(), json!(deep_sizes));
    // C10: a chain deeper than 2^17 with branching at its far end (x -> a, x -> b, a -> c, b -> c): the discovery order
    // below a very deep recursion must still be depth-first (preorder is decided in linear time; see the skip below)
    if prop == "C10" {
        for &n in &tier.pick(vec![66_000usize, 140_000], vec![66_000usize, 140_000]) {
            let m = n - 3;
            let mut e: Vec<Tri> = (0..m - 1).map(|i| (i as Key, (i + 1) as Key, 7 + (i % 3) as EV)).collect();
            let (x, a, b, c) = ((m - 1) as Key, m as Key, (m + 1) as Key, (m + 2) as Key);
            e.push((x, a, 1));
            e.push((x, b, 2));
            e.push((a, c, 3));
            e.push((b, c, 4));
            bigs.push((GCase { n, prio: (0..n).map(|i| ((i * 7) % 5) as i32).collect(), edges: e }, 0, c));
        }
    }
    // one wide hub (in- and out-degree above 4096): 0 -> i and i -> 0 for every i, plus a chain among the first spokes
    if prop != "C06" {
        for &n in &tier.pick(if prop == "C08" { vec![8400usize, 70_000] } else { vec![8400usize] }, if prop == "C08" { vec![8400usize, 70_000, 140_000] } else { vec![8400usize, 70_000] }) {
            let mut e: Vec<Tri> = (1..n).map(|i| (0 as Key, i as Key, 3 + (i % 4) as EV)).collect();
            e.extend((1..n).map(|i| (i as Key, 0 as Key, 1 + (i % 2) as EV)));
            e.extend((1..40).map(|i| (i as Key, (i + 1) as Key, 9)));
            bigs.push((GCase { n, prio: (0..n).map(|i| ((i * 3) % 4) as i32).collect(), edges: e }, 0, (n - 1) as Key));
        }
    }
    let big = parallel(workers.min(bigs.len().max(1)), |w| {
        let mut st = Stats::new();
        for (i, (g, r, t)) in bigs.iter().enumerate() {
            if i % workers.min(bigs.len().max(1)) != w {
                continue;
            }
            wd.tick();
            st.class("graphs.large-constructed");
            if i == 1 {
                st.sample_kind("large", 1, || json!({"large_graph": {"n": g.n, "edges": g.edges.len(), "first_edges": &g.edges[..6], "root": r, "target": t}}));
            }
            macro_rules! fl {
                ($F:ty) => {{
                    let nodes = build::<$F>(g);
                    for cell in cells_for(prop, <$F>::DIRECTED) {
                        wd.tick();
                        // the very deep chains are there for the recursive traversals (dfs, orderings); the
                        // priority-order oracle is quadratic in the chain length
                        if g.n > 6000 && matches!(&cell, Cell::Search(c) if matches!(c.algo, Algo::PfsMin | Algo::PfsMax)) {
                            continue;
                        }
                        if g.n > 4000 && matches!(&cell, Cell::Search(c) if matches!(c.algo, Algo::PfsMin | Algo::PfsMax)) {
                            continue;
                        }
                        // the exact ordering deciders are quadratic: beyond 30 000 nodes the orderings are exercised through scc() (C11)
                        // (the preorder decider is linear, so C10 keeps the preorders)
                        if g.n > 30_000 && matches!(&cell, Cell::Order(_)) && prop != "C08" && !(prop == "C10" && matches!(&cell, Cell::Order(o) if o.ord == Ordk::Pre)) {
                            continue;
                        }
                        let (root, target) = if cell.transposed() { (*t, *r) } else { (*r, *t) };
                        // (complete traversals, i.e. no target, for the closure properties on the very large graphs)
                        let complete = g.n > 4000 && matches!(prop, "C07" | "C08") && matches!(&cell, Cell::Search(c) if c.term == Term::Search);
                        let cell = with_target(&cell, if complete { None } else { Some(target) });
                        // filters: nothing rejected / every third edge rejected
                        let view = g.view(<$F>::DIRECTED, cell.transposed());
                        let mut rej = BTreeSet::new();
                        let mut k = 0;
                        for s in 0..view.n {
                            for &(tt, e) in &view.inc[s] {
                                k += 1;
                                if k % 3 == 0 {
                                    rej.insert((s as Key, tt, e));
                                }
                            }
                        }
                        let mut ms = vec![MethSpec::None, MethSpec::ForEach, MethSpec::Filter(BTreeSet::new()), MethSpec::Filter(rej)];
                        if g.n <= 130 {
                            ms.push(nested_filter(g, <$F>::DIRECTED, cell.transposed(), Algo::Dfs, target));
                            ms.push(nested_filter(g, <$F>::DIRECTED, cell.transposed(), Algo::Bfs, (g.n / 2) as Key));
                        }
                        if prop == "C08" {
                            ms.push(MethSpec::Relax);
                        }
                        if g.n > 4000 {
                            // very deep chains and the wide hub: one closure kind per cell, alternating
                            ms = vec![if cell.transposed() || matches!(&cell, Cell::Search(c) if c.term == Term::Search) { MethSpec::ForEach } else { MethSpec::None }];
                        }
                        for m in ms {
                            let c = SCase { g: g.clone(), root, cell: cell.clone(), meth: m };
                            run_case_on::<$F>(prop, &nodes, &c, &mut st, true);
                        }
                    }
                }};
            }
            fl!(Di);
            fl!(SDi);
            if prop != "C08" {
                fl!(Un);
                fl!(SUn);
            }
        }
        st
    });
    ctx.stats.merge(big);
    ctx.stats.extra.insert("large_constructed_sizes".into(), json!(sizes));
    ctx.stats.extra.insert("enumeration_bounds".into(), json!(bounds.iter().map(|b| json!({"nodes": b.0, "max_edges": b.1, "graphs": (0..=b.1).map(|m| count_graphs(b.0, m)).sum::<u64>()})).collect::<Vec<_>>()));
    // (c) random with shrinking
    let rworkers = tier.pick(8usize, 16usize);
    let cases = tier.pick(if heavy { 800u32 } else { 2500u32 }, if heavy { 15_000u32 } else { 60_000u32 });
    let random = parallel(rworkers, |w| {
        let mut st = Stats::new();
        let cell = std::cell::RefCell::new(&mut st);
        let strat = rawg_strategy(40);
        let minimal = pt::run(seed, 100 + w as u64, cases, &strat, |raw, counting| {
            wd.tick();
            if counting {
                let mut st = cell.borrow_mut();
                st.class("graphs.random");
                let g = raw.graph();
                st.class(&format!("random.n.{}", match g.n { 0..=3 => "1-3", 4..=8 => "4-8", 9..=20 => "9-20", _ => "21-40" }));
                if g.edges.iter().any(|e| e.0 == e.1) {
                    st.class("random.has-self-loop");
                }
                if g.edges.iter().map(|e| (e.0, e.1)).collect::<BTreeSet<_>>().len() < g.edges.len() {
                    st.class("random.has-parallel-edges");
                }
                if g.n >= 4 && g.edges.len() >= 5 {
                    st.sample_kind("random", 1, || json!({"random_graph": g, "root_target": raw.root_target(&g, true, false), "filter": raw.filter(&g, true, false)}));
                }
                run_raw(prop, raw, &mut st, true)
            } else {
                let mut scratch = Stats::new();
                run_raw(prop, raw, &mut scratch, false)
            }
        });
        drop(cell);
        if let Some(m) = minimal {
            let mut only = Stats::new();
            run_raw(prop, &m, &mut only, false);
            // keep the shrunk representative for signatures it reproduces
            for (sig, (f, n)) in only.findings {
                st.findings.insert(sig, (f, n));
            }
        }
        st
    });
    ctx.stats.merge(random);
    if prop == "C06" {
        let mut st = Stats::new();
        compare_nodes::<Di>(&mut st, seed);
        compare_nodes::<SDi>(&mut st, seed);
        compare_nodes::<Un>(&mut st, seed);
        compare_nodes::<SUn>(&mut st, seed);
        ctx.stats.merge(st);
        ctx.stats.extra.insert("priority_enumeration_bounds".into(), json!(prio_bounds.iter().map(|b| json!({"nodes": b.0, "max_edges": b.1, "priorities": "{0,1,2}^n"})).collect::<Vec<_>>()));
    }
}

/// C06, last sentence: node comparison operators.
pub fn compare_nodes<F: Flavour>(st: &mut Stats, seed: u64) {
    use std::cmp::Ordering;
    let mut combos: Vec<(Key, i32)> = vec![];
    for k in [0 as Key, 1, 2, 7, Key::MAX] {
        for v in [i32::MIN, -1, 0, 1, 2, i32::MAX] {
            combos.push((k, v));
        }
    }
    // plus seeded random combinations
    let mut x = seed.wrapping_mul(0x9E3779B97F4A7C15) | 1;
    for _ in 0..40 {
        x ^= x << 13;
        x ^= x >> 7;
        x ^= x << 17;
        combos.push(((x % 5) as Key, ((x >> 20) % 7) as i32 - 3));
    }
    let nodes: Vec<F::Node> = combos.iter().map(|&(k, v)| F::new_node(k, NVal::plain(v))).collect();
    for (i, a) in nodes.iter().enumerate() {
        for (j, b) in nodes.iter().enumerate() {
            st.eval();
            let (ka, va) = combos[i];
            let (kb, vb) = combos[j];
            if ka == kb && va != vb || ka != kb && va == vb {
                st.nontrivial(&(F::NAME, "cmp", combos[i], combos[j]));
            }
            let case = json!({"kind": "compare", "flavour": F::NAME, "a": {"key": ka, "value": va}, "b": {"key": kb, "value": vb}});
            let mut bad = |clause: &'static str, detail: String| {
                st.report(Finding { property: "C06".into(), flavour: F::NAME.into(), clause: clause.into(), signature: format!("{} | node comparison | {}", F::NAME, clause), case: case.clone(), detail });
            };
            let r = std::panic::catch_unwind(std::panic::AssertUnwindSafe(|| (F::node_eq(a, b), F::node_ne(a, b), F::node_cmp(a, b), F::node_partial_cmp(a, b), F::node_rel(a, b), F::prio(a), F::prio_deref(a))));
            let Ok((eq, ne, cmp, pcmp, (lt, le, gt, ge), pa, pda)) = r else {
                bad("cmp.panic", "comparison panicked".into());
                continue;
            };
            if eq != (ka == kb) || ne == eq {
                bad("cmp.eq-is-not-key-equality", format!("keys {} {} values {} {}: == gives {}, != gives {}", ka, kb, va, vb, eq, ne));
            }
            let want = va.cmp(&vb);
            if cmp != want {
                bad("cmp.ord-not-by-value", format!("values {} {}: cmp gives {:?}", va, vb, cmp));
            }
            if pcmp != Some(want) {
                bad("cmp.partial-ord-differs-from-ord", format!("values {} {}: partial_cmp gives {:?}, value order is {:?}", va, vb, pcmp, want));
            }
            if lt != (want == Ordering::Less) || le != (want != Ordering::Greater) || gt != (want == Ordering::Greater) || ge != (want != Ordering::Less) {
                bad("cmp.operators", format!("values {} {}: < {} <= {} > {} >= {}", va, vb, lt, le, gt, ge));
            }
            if pa != va || pda != va {
                bad("cmp.value-accessor", format!("value() gives {}, deref gives {}, constructed with {}", pa, pda, va));
            }
        }
    }
    st.class_n(&format!("compare.pairs.{}", F::NAME), (nodes.len() * nodes.len()) as u64);
}
