//! Run context: counting, sampling, findings, known-findings matching,
//! evidence and exit codes. One `Ctx` per check run; `Stats` is the part a
//! worker thread fills in and that is merged afterwards.
use serde::{Deserialize, Serialize};
use serde_json::{json, Value};
use std::collections::{BTreeMap, BTreeSet, HashSet};
use std::hash::{Hash, Hasher};
use std::path::PathBuf;
use std::sync::atomic::{AtomicU64, Ordering};
use std::sync::{Arc, Mutex};
use std::time::{Duration, Instant};

/// the verif root is the working directory (check.sh cds to its own directory before exec)
pub fn verif_root() -> PathBuf {
    std::env::var("VERIF_ROOT").map(PathBuf::from).unwrap_or_else(|_| std::env::current_dir().unwrap_or_else(|_| PathBuf::from("/verif")))
}

#[derive(Clone, Copy, Debug, PartialEq, Eq)]
pub enum Tier {
    Quick,
    Thorough,
}
impl Tier {
    pub fn name(self) -> &'static str {
        match self {
            Tier::Quick => "quick",
            Tier::Thorough => "thorough",
        }
    }
    pub fn pick<T>(self, q: T, t: T) -> T {
        match self {
            Tier::Quick => q,
            Tier::Thorough => t,
        }
    }
}

#[derive(Clone, Debug, Serialize, Deserialize)]
pub struct Finding {
    pub property: String,
    pub flavour: String,
    /// identifier from a closed list, e.g. `mirror.multiplicity`
    pub clause: String,
    /// exact structural signature (flavour | canonical case | clause)
    pub signature: String,
    /// check-specific replayable case
    pub case: Value,
    pub detail: String,
}

pub fn hash64<T: Hash>(t: &T) -> u64 {
    let mut h = std::collections::hash_map::DefaultHasher::new();
    t.hash(&mut h);
    h.finish()
}

#[derive(Default, Serialize, Deserialize)]
pub struct Stats {
    pub evals: u64,
    pub nontrivial: HashSet<u64>,
    pub classes: BTreeMap<String, u64>,
    pub samples: Vec<Value>,
    pub sample_cap: usize,
    pub findings: BTreeMap<String, (Finding, u64)>,
    pub extra: BTreeMap<String, Value>,
    pub undecided: u64,
    pub nontrivial_capped: bool,
    pub sample_kinds: BTreeMap<String, usize>,
    pub harness_errors: Vec<String>,
}
pub const NONTRIVIAL_CAP: usize = 40_000_000;
impl Stats {
    pub fn new() -> Stats {
        Stats { sample_cap: 6, ..Default::default() }
    }
    pub fn eval(&mut self) {
        self.evals += 1;
    }
    pub fn evals_n(&mut self, n: u64) {
        self.evals += n;
    }
    pub fn nontrivial<T: Hash>(&mut self, key: &T) {
        if self.nontrivial.len() < NONTRIVIAL_CAP {
            self.nontrivial.insert(hash64(key));
        } else {
            self.nontrivial_capped = true;
        }
    }
    /// keep up to `cap` samples per kind
    pub fn sample_kind(&mut self, kind: &str, cap: usize, v: impl FnOnce() -> Value) {
        let n = self.sample_kinds.entry(kind.to_string()).or_insert(0);
        if *n < cap {
            *n += 1;
            self.samples.push(v());
        }
    }
    pub fn class(&mut self, name: &str) {
        *self.classes.entry(name.to_string()).or_insert(0) += 1;
    }
    pub fn class_n(&mut self, name: &str, n: u64) {
        *self.classes.entry(name.to_string()).or_insert(0) += n;
    }
    /// keep the first few cases of each kind as samples
    pub fn sample(&mut self, v: impl FnOnce() -> Value) {
        if self.samples.len() < self.sample_cap {
            self.samples.push(v());
        }
    }
    pub fn report(&mut self, f: Finding) {
        let size = f.case.to_string().len();
        match self.findings.get_mut(&f.signature) {
            Some((old, n)) => {
                *n += 1;
                if size < old.case.to_string().len() {
                    *old = f;
                }
            }
            None => {
                self.findings.insert(f.signature.clone(), (f, 1));
            }
        }
    }
    pub fn has_findings(&self) -> bool {
        !self.findings.is_empty()
    }
    pub fn merge(&mut self, o: Stats) {
        self.evals += o.evals;
        self.undecided += o.undecided;
        self.nontrivial_capped |= o.nontrivial_capped;
        self.harness_errors.extend(o.harness_errors);
        for h in o.nontrivial {
            if self.nontrivial.len() < NONTRIVIAL_CAP {
                self.nontrivial.insert(h);
            } else {
                self.nontrivial_capped = true;
                break;
            }
        }
        for (k, v) in o.classes {
            *self.classes.entry(k).or_insert(0) += v;
        }
        for s in o.samples {
            if self.samples.len() < 24 {
                self.samples.push(s);
            }
        }
        for (_, (f, n)) in o.findings {
            let size = f.case.to_string().len();
            match self.findings.get_mut(&f.signature) {
                Some((old, m)) => {
                    *m += n;
                    if size < old.case.to_string().len() {
                        *old = f;
                    }
                }
                None => {
                    self.findings.insert(f.signature.clone(), (f, n));
                }
            }
        }
        for (k, v) in o.extra {
            match (self.extra.get_mut(&k), &v) {
                (Some(Value::Number(a)), Value::Number(b)) if a.is_u64() && b.is_u64() => {
                    *self.extra.get_mut(&k).unwrap() = json!(a.as_u64().unwrap() + b.as_u64().unwrap());
                }
                _ => {
                    self.extra.insert(k, v);
                }
            }
        }
    }
}

#[derive(Clone, Debug, Serialize, Deserialize)]
pub struct KnownEntry {
    pub status: String, // "known" | "fixed"
    pub property: String,
    #[serde(default)]
    pub signature: String,
    #[serde(default)]
    pub commit: String,
    pub what: String,
}

pub struct Ctx {
    pub prop: String,
    pub tier: Tier,
    pub seed: u64,
    pub start: Instant,
    pub stats: Stats,
    pub rule: String,
    pub level: &'static str,
    pub assumptions: Vec<String>,
    pub exhaustive: Option<bool>,
    pub known: Vec<KnownEntry>,
    pub inconclusive: Vec<String>,
    pub watchdog: Arc<Watchdog>,
    pub replay_only: bool,
}

/// Heartbeat-based watchdog: a hang is reported as exit 2 (inconclusive),
/// never as a violation.
pub struct Watchdog {
    last: AtomicU64,
    what: Mutex<String>,
    start: Instant,
    pub limit_s: AtomicU64,
}
impl Watchdog {
    pub fn beat(&self, what: impl FnOnce() -> String) {
        self.last.store(self.start.elapsed().as_millis() as u64, Ordering::Relaxed);
        if let Ok(mut w) = self.what.try_lock() {
            *w = what();
        }
    }
    pub fn tick(&self) {
        self.last.store(self.start.elapsed().as_millis() as u64, Ordering::Relaxed);
    }
}

impl Ctx {
    pub fn new(prop: &str, tier: Tier, seed: u64) -> Ctx {
        let wd = Arc::new(Watchdog { last: AtomicU64::new(0), what: Mutex::new(String::new()), start: Instant::now(), limit_s: AtomicU64::new(120) });
        {
            let wd = wd.clone();
            let prop = prop.to_string();
            std::thread::spawn(move || loop {
                std::thread::sleep(Duration::from_secs(2));
                let now = wd.start.elapsed().as_millis() as u64;
                let last = wd.last.load(Ordering::Relaxed);
                let lim = wd.limit_s.load(Ordering::Relaxed) * 1000;
                if now.saturating_sub(last) > lim {
                    let what = wd.what.lock().map(|w| w.clone()).unwrap_or_default();
                    println!("INCONCLUSIVE property={} no progress for {} s (hang or extremely slow case); last case: {}", prop, lim / 1000, what);
                    std::process::exit(2);
                }
            });
        }
        let known = load_known(prop);
        Ctx {
            prop: prop.to_string(),
            tier,
            seed,
            start: Instant::now(),
            stats: Stats::new(),
            rule: String::new(),
            level: "exploration",
            assumptions: vec![],
            exhaustive: None,
            known,
            inconclusive: vec![],
            watchdog: wd,
            replay_only: false,
        }
    }

    pub fn is_known(&self, sig: &str) -> Option<&KnownEntry> {
        self.known.iter().find(|k| k.status == "known" && k.signature == sig)
    }
    pub fn known_signatures(&self) -> BTreeSet<String> {
        self.known.iter().filter(|k| k.status == "known").map(|k| k.signature.clone()).collect()
    }

    /// Write evidence, violation files, print result lines; returns the exit code.
    pub fn finish(mut self) -> i32 {
        let wall = self.start.elapsed().as_secs_f64();
        let mut violations = vec![];
        let mut known_hits: BTreeMap<String, u64> = BTreeMap::new();
        let findings = std::mem::take(&mut self.stats.findings);
        for (sig, (f, n)) in findings {
            if self.is_known(&sig).is_some() {
                *known_hits.entry(sig).or_insert(0) += n;
            } else {
                violations.push((f, n));
            }
        }
        for k in self.known.iter().filter(|k| k.status == "known") {
            match known_hits.get(&k.signature) {
                Some(n) => println!("KNOWN-FINDING: property={} {} [signature: {}] (reproduced {} times)", self.prop, k.what, k.signature, n),
                None => {
                    if !self.replay_only {
                        println!("note: listed finding not reproduced in this run: {}", k.signature)
                    }
                }
            }
        }
        let outdir = verif_root().join("out").join("violations").join(&self.prop);
        let mut vpaths = vec![];
        if !violations.is_empty() {
            let _ = std::fs::create_dir_all(&outdir);
        }
        violations.sort_by_key(|(f, _)| f.case.to_string().len());
        for (i, (f, n)) in violations.iter().enumerate() {
            let name = format!("{:016x}.json", hash64(&f.signature));
            let path = outdir.join(name);
            let body = json!({"property": f.property, "flavour": f.flavour, "clause": f.clause, "signature": f.signature, "case": f.case, "detail": f.detail, "occurrences": n, "seed": self.seed, "tier": self.tier.name()});
            let _ = std::fs::write(&path, serde_json::to_string_pretty(&body).unwrap());
            if i < 6 {
                println!("VIOLATION property={} replay={}", self.prop, path.display());
                println!("  clause={} flavour={} occurrences={}\n  signature: {}\n  detail: {}", f.clause, f.flavour, n, f.signature, trunc(&f.detail, 600));
            } else if i == 6 {
                println!("  ... and {} more violation signatures, all written to {}", violations.len() - 6, outdir.display());
            }
            vpaths.push(path.display().to_string());
        }
        // evidence
        let mut cov = serde_json::Map::new();
        cov.insert("evaluations".into(), json!(self.stats.evals));
        cov.insert("distinct_nontrivial".into(), json!(self.stats.nontrivial.len()));
        cov.insert("rule".into(), json!(self.rule));
        cov.insert("samples".into(), Value::Array(self.stats.samples.clone()));
        if let Some(e) = self.exhaustive {
            cov.insert("exhaustive".into(), json!(e));
        }
        cov.insert("classes".into(), json!(self.stats.classes));
        cov.insert("known_excluded".into(), json!(known_hits));
        cov.insert("undecided".into(), json!(self.stats.undecided));
        if self.stats.nontrivial_capped {
            cov.insert("distinct_nontrivial_is_lower_bound".into(), json!(true));
        }
        for e in &self.stats.harness_errors {
            self.inconclusive.push(format!("harness error: {}", e));
        }
        for (k, v) in &self.stats.extra {
            cov.insert(k.clone(), v.clone());
        }
        if !self.inconclusive.is_empty() {
            cov.insert("inconclusive".into(), json!(self.inconclusive));
        }
        let ev = json!({
            "property_id": self.prop,
            "tier": self.tier.name(),
            "seed": self.seed,
            "level": self.level,
            "coverage": Value::Object(cov),
            "assumptions": self.assumptions,
            "wall_s": (wall * 1000.0).round() / 1000.0,
            "violations": violations.len(),
            "violation_files": vpaths,
        });
        if !self.replay_only {
            let evdir = verif_root().join("evidence");
            let _ = std::fs::create_dir_all(&evdir);
            let p = evdir.join(format!("{}.json", self.prop));
            if let Err(e) = std::fs::write(&p, serde_json::to_string_pretty(&ev).unwrap()) {
                println!("ERROR cannot write evidence {}: {}", p.display(), e);
                return 2;
            }
        }
        println!(
            "{} {} seed={} evaluations={} distinct_nontrivial={} violations={} known={} wall={:.1}s",
            self.prop,
            self.tier.name(),
            self.seed,
            self.stats.evals,
            self.stats.nontrivial.len(),
            violations.len(),
            known_hits.len(),
            wall
        );
        if !violations.is_empty() {
            1
        } else if !self.inconclusive.is_empty() {
            for m in &self.inconclusive {
                println!("INCONCLUSIVE property={} {}", self.prop, m);
            }
            2
        } else {
            0
        }
    }
}

pub fn trunc(s: &str, n: usize) -> String {
    if s.len() <= n {
        s.to_string()
    } else {
        let mut e = n;
        while !s.is_char_boundary(e) {
            e -= 1;
        }
        format!("{}…", &s[..e])
    }
}

pub fn load_known(prop: &str) -> Vec<KnownEntry> {
    let p = verif_root().join("known_findings.jsonl");
    let mut out = vec![];
    if let Ok(s) = std::fs::read_to_string(p) {
        for line in s.lines() {
            let line = line.trim();
            if line.is_empty() || line.starts_with('#') {
                continue;
            }
            if let Ok(k) = serde_json::from_str::<KnownEntry>(line) {
                if k.property == prop {
                    out.push(k);
                }
            }
        }
    }
    out
}

/// Regression inputs committed under /verif/replays/<ID>/*.json
pub fn replay_files(prop: &str) -> Vec<PathBuf> {
    let d = verif_root().join("replays").join(prop);
    let mut v: Vec<PathBuf> = std::fs::read_dir(d).map(|r| r.filter_map(|e| e.ok()).map(|e| e.path()).filter(|p| p.extension().map_or(false, |x| x == "json")).collect()).unwrap_or_default();
    v.sort();
    v
}

/// Split `total` work items over `workers` threads; every worker gets its own
/// Stats, merged in worker order (deterministic).
pub fn parallel<F>(workers: usize, f: F) -> Stats
where
    F: Fn(usize) -> Stats + Sync,
{
    let mut all = Stats::new();
    let res: Vec<Stats> = std::thread::scope(|s| {
        let hs: Vec<_> = (0..workers)
            .map(|w| {
                let f = &f;
                std::thread::Builder::new().stack_size(256 << 20).spawn_scoped(s, move || f(w)).unwrap()
            })
            .collect();
        hs.into_iter()
            .map(|h| {
                h.join().unwrap_or_else(|e| {
                    let mut st = Stats::new();
                    st.harness_errors.push(format!("worker thread panicked: {}", crate::types::panic_msg(e)));
                    st
                })
            })
            .collect()
    });
    for r in res {
        all.merge(r);
    }
    all
}

pub fn silence_panics() {
    std::panic::set_hook(Box::new(|_| {}));
}
