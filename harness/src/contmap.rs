//! C18: Graph containers as key -> node maps with faithful views and DOT
//! exports, compared call by call with a map model.
use crate::ctx::*;
use crate::flavour::*;
use crate::hook;
use crate::model::*;
use crate::pt;
use crate::types::*;
use proptest::prelude::*;
use serde::{Deserialize, Serialize};
use serde_json::{json, Value};
use std::collections::{BTreeMap, BTreeSet};
use std::panic::{catch_unwind, AssertUnwindSafe};

#[derive(Clone, Copy, Debug, PartialEq, Eq, Hash, Serialize, Deserialize)]
pub enum Via {
    Direct,
    Get,
    Index,
    Iter,
    ToVec,
}

#[derive(Clone, Copy, Debug, PartialEq, Eq, Hash, Serialize, Deserialize)]
pub enum COp {
    InsertPrimary(Key),
    /// a different node (other allocation, other value) with the same key
    InsertImpostor(Key),
    Get(Key),
    Index(Key),
    Contains(Key),
    Len,
    Remove(Key),
    ToVec,
    Iter,
    Views,
    ToDot,
    ToDotAttr(u8),
    Connect(Key, Key, EV, Via),
    /// `count` edges from one node to the others (long adjacency lists)
    ConnectBurst(Key, u8),
    Disconnect(Key, Key),
    Isolate(Key),
    Sizeof,
}

#[derive(Clone, Debug, PartialEq, Eq, Hash, Serialize, Deserialize)]
pub struct CCase {
    pub n: usize,
    pub ops: Vec<COp>,
    pub use_default: bool,
}

#[derive(Clone, Copy, PartialEq, Eq, Debug)]
enum Which {
    Primary,
    Impostor,
}

struct World<F: Flavour> {
    prim: Vec<F::Node>,
    imp: Vec<F::Node>,
    g: F::Graph,
    members: BTreeMap<Key, Which>,
}

impl<F: Flavour> World<F> {
    fn member_node(&self, k: Key) -> Option<&F::Node> {
        self.members.get(&k).map(|w| match w {
            Which::Primary => &self.prim[k as usize],
            Which::Impostor => &self.imp[k as usize],
        })
    }
}

fn attrs_for_node(seed: u8, key: Key) -> Attrs {
    match (key as usize + seed as usize) % 4 {
        0 => None,
        1 => Some(vec![]),
        2 => Some(vec![("label".into(), format!("n{}", key))]),
        // (an attribute whose value is the empty string is an attribute: `[color=""]`)
        _ => Some(vec![("label".into(), if (key as usize + seed as usize) % 8 == 7 { String::new() } else { format!("n{}", key) }), ("color".into(), if seed % 5 == 0 { String::new() } else { format!("c{}", seed % 5) })]),
    }
}
fn attrs_for_edge(seed: u8, u: Key, v: Key, e: EV) -> Attrs {
    match (u as usize + 2 * v as usize + e as usize + seed as usize) % 3 {
        0 => None,
        1 => Some(vec![("w".into(), format!("{}", e))]),
        _ => Some(vec![("w".into(), format!("{}", e)), ("tag".into(), if (u + v) % 2 == 0 { String::new() } else { format!("{}to{}", u, v) })]),
    }
}
fn attrs_for_graph(seed: u8) -> Attrs {
    match seed % 3 {
        0 => None,
        1 => Some(vec![("rankdir".into(), "LR".into())]),
        _ => Some(vec![("rankdir".into(), "TB".into()), ("size".into(), format!("{}", seed))]),
    }
}

#[derive(Debug, Default, PartialEq, Eq)]
struct Dot {
    gattrs: Vec<(String, String)>,
    nodes: Vec<(String, Vec<(String, String)>)>,
    edges: Vec<(String, String, Vec<(String, String)>)>,
}

fn parse_attrs(s: &str) -> Result<Vec<(String, String)>, String> {
    // [k="v"][k2="v2"]
    let mut out = vec![];
    let mut rest = s.trim();
    while !rest.is_empty() {
        if !rest.starts_with('[') {
            return Err(format!("attribute text {:?}", s));
        }
        let end = rest.find(']').ok_or_else(|| format!("attribute text {:?}", s))?;
        let body = &rest[1..end];
        let eq = body.find('=').ok_or_else(|| format!("attribute text {:?}", s))?;
        let (k, v) = (&body[..eq], &body[eq + 1..]);
        if !(v.starts_with('"') && v.ends_with('"') && v.len() >= 2) {
            return Err(format!("attribute text {:?}", s));
        }
        out.push((k.to_string(), v[1..v.len() - 1].to_string()));
        rest = rest[end + 1..].trim_start();
    }
    Ok(out)
}

fn parse_dot(text: &str) -> Result<Dot, String> {
    let lines: Vec<&str> = text.lines().collect();
    if lines.first().map(|l| l.trim()) != Some("digraph {") || lines.last().map(|l| l.trim()) != Some("}") {
        return Err(format!("not wrapped in `digraph {{ ... }}`: {:?}", text));
    }
    let mut d = Dot::default();
    for l in &lines[1..lines.len() - 1] {
        let l = l.trim();
        if l.is_empty() {
            continue;
        }
        if let Some(p) = l.find(" -> ") {
            let u = l[..p].trim().to_string();
            let rest = &l[p + 4..];
            let (v, attrs) = match rest.find(' ') {
                Some(sp) => (rest[..sp].to_string(), parse_attrs(&rest[sp..])?),
                None => (rest.to_string(), vec![]),
            };
            d.edges.push((u, v, attrs));
        } else if !l.contains(' ') && l.contains("=\"") {
            let eq = l.find('=').unwrap();
            d.gattrs.push((l[..eq].to_string(), l[eq + 2..l.len() - 1].to_string()));
        } else {
            let (k, attrs) = match l.find(' ') {
                Some(sp) => (l[..sp].to_string(), parse_attrs(&l[sp..])?),
                None => (l.to_string(), vec![]),
            };
            d.nodes.push((k, attrs));
        }
    }
    Ok(d)
}

fn step<F: Flavour>(w: &mut World<F>, op: &COp, st: &mut Stats, counting: bool) -> Result<(), Fail> {
    let n = w.prim.len();
    let addr_of = |w: &World<F>, k: Key| w.member_node(k).map(|x| F::addr(x));
    let cls = |st: &mut Stats, s: &str| {
        if counting {
            st.class(s)
        }
    };
    match *op {
        COp::InsertPrimary(k) | COp::InsertImpostor(k) => {
            let (node, which) = if matches!(op, COp::InsertPrimary(_)) { (w.prim[k as usize].clone(), Which::Primary) } else { (w.imp[k as usize].clone(), Which::Impostor) };
            let before = addr_of(w, k);
            let r = F::g_insert(&mut w.g, node);
            if r != before.is_none() {
                return fail("insert.return", format!("insert of key {} returned {} while the key was {}", k, r, if before.is_some() { "present" } else { "absent" }));
            }
            if before.is_none() {
                w.members.insert(k, which);
                cls(st, "op.insert-fresh");
            } else {
                cls(st, "op.insert-duplicate");
            }
            let after = F::g_get(&w.g, k).map(|x| F::addr(&x));
            if after != addr_of(w, k) {
                return fail(if before.is_some() { "insert.duplicate-replaced-the-original" } else { "insert.stored-a-different-node" }, format!("key {}", k));
            }
        }
        COp::Get(k) => {
            let r = F::g_get(&w.g, k);
            match (r, w.member_node(k)) {
                (None, None) => {}
                (Some(h), Some(m)) => {
                    if F::addr(&h) != F::addr(m) || F::key(&h) != k {
                        return fail("get.different-node", format!("key {}", k));
                    }
                }
                (r, m) => return fail("get.membership", format!("get({}) is_some={} but member={}", k, r.is_some(), m.is_some())),
            }
        }
        COp::Index(k) => {
            if let Some(m) = w.member_node(k) {
                let a = F::g_index(&w.g, k);
                let b = F::g_index_ref(&w.g, k);
                if F::addr(&a) != F::addr(m) || F::addr(&b) != F::addr(m) {
                    return fail("index.different-node", format!("key {}", k));
                }
            }
        }
        COp::Contains(k) => {
            if F::g_contains(&w.g, k) != w.members.contains_key(&k) {
                return fail("contains", format!("contains({}) = {}", k, F::g_contains(&w.g, k)));
            }
        }
        COp::Len => {
            if F::g_len(&w.g) != w.members.len() || F::g_is_empty(&w.g) != w.members.is_empty() {
                return fail("len", format!("len {} is_empty {} for {} members", F::g_len(&w.g), F::g_is_empty(&w.g), w.members.len()));
            }
        }
        COp::Remove(k) => {
            let expect = addr_of(w, k);
            let r = F::g_remove(&mut w.g, k);
            match (&r, expect) {
                (None, None) => {}
                (Some(h), Some(a)) => {
                    if F::addr(h) != a {
                        return fail("remove.different-node", format!("key {}", k));
                    }
                    w.members.remove(&k);
                    cls(st, "op.remove-member");
                }
                _ => return fail("remove.membership", format!("remove({}) is_some={} member={}", k, r.is_some(), expect.is_some())),
            }
            if F::g_contains(&w.g, k) || F::g_get(&w.g, k).is_some() {
                return fail("remove.still-present", format!("key {}", k));
            }
        }
        COp::ToVec | COp::Iter => {
            let got: Vec<(Key, usize)> = if matches!(op, COp::ToVec) {
                F::g_to_vec(&w.g).iter().map(|x| (F::key(x), F::addr(x))).collect()
            } else {
                let it = F::g_iter(&w.g);
                for (k, nd) in &it {
                    if F::key(nd) != *k {
                        return fail("iter.key-mismatch", format!("entry {} holds node with key {}", k, F::key(nd)));
                    }
                }
                it.iter().map(|(k, x)| (*k, F::addr(x))).collect()
            };
            let mut got_sorted = got.clone();
            got_sorted.sort();
            let expect: Vec<(Key, usize)> = w.members.keys().map(|k| (*k, addr_of(w, *k).unwrap())).collect();
            if got_sorted != expect {
                return fail(if matches!(op, COp::ToVec) { "to_vec.members" } else { "iter.members" }, format!("got keys {:?} expected {:?} (or a different allocation)", got.iter().map(|x| x.0).collect::<Vec<_>>(), expect.iter().map(|x| x.0).collect::<Vec<_>>()));
            }
        }
        COp::Views => {
            let keys = |v: Vec<F::Node>| -> Result<BTreeSet<Key>, Fail> {
                let mut s = BTreeSet::new();
                for x in &v {
                    let k = F::key(x);
                    if w.member_node(k).map(|m| F::addr(m)) != Some(F::addr(x)) || !s.insert(k) {
                        return fail("views.not-a-member-or-repeated", format!("key {}", k));
                    }
                }
                Ok(s)
            };
            let expect = |pred: &dyn Fn(&F::Node) -> bool| -> BTreeSet<Key> { w.members.keys().filter(|k| pred(w.member_node(**k).unwrap())).cloned().collect() };
            let orphans = keys(F::g_orphans(&w.g))?;
            let ex_orph = expect(&|m| F::out_list(m).is_empty() && F::in_list(m).is_empty());
            if orphans != ex_orph {
                return fail("views.orphans", format!("got {:?} expected {:?}", orphans, ex_orph));
            }
            if F::DIRECTED {
                let roots = keys(F::g_roots(&w.g))?;
                let ex = expect(&|m| F::in_list(m).is_empty());
                if roots != ex {
                    return fail("views.roots", format!("got {:?} expected {:?}", roots, ex));
                }
                let leaves = keys(F::g_leaves(&w.g))?;
                let ex = expect(&|m| F::out_list(m).is_empty());
                if leaves != ex {
                    return fail("views.leaves", format!("got {:?} expected {:?}", leaves, ex));
                }
            }
        }
        COp::ToDot | COp::ToDotAttr(_) => {
            let seed = if let COp::ToDotAttr(s) = op { Some(*s) } else { None };
            let text = match seed {
                None => F::g_to_dot(&w.g),
                Some(s) => match F::g_to_dot_attr(&w.g, &|_| attrs_for_graph(s), &|nd| attrs_for_node(s, F::key(nd)), &|u, v, e| attrs_for_edge(s, F::key(u), F::key(v), *e)) {
                    Some(t) => t,
                    None => return Ok(()),
                },
            };
            let d = parse_dot(&text).map_err(|e| Fail { clause: "dot.unparsable", detail: e })?;
            let mut nodes = d.nodes.clone();
            nodes.sort();
            let mut ex_nodes: Vec<(String, Vec<(String, String)>)> = w.members.keys().map(|k| (k.to_string(), seed.and_then(|s| attrs_for_node(s, *k)).unwrap_or_default())).collect();
            ex_nodes.sort();
            if nodes.iter().map(|x| &x.0).collect::<Vec<_>>() != ex_nodes.iter().map(|x| &x.0).collect::<Vec<_>>() {
                return fail("dot.node-statements", format!("got {:?} expected one per member {:?}\n{}", d.nodes, w.members.keys().collect::<Vec<_>>(), text));
            }
            if nodes != ex_nodes {
                return fail("dot.node-attributes", format!("got {:?} expected {:?}", nodes, ex_nodes));
            }
            let mut edges = d.edges.clone();
            edges.sort();
            let mut ex_edges = vec![];
            for k in w.members.keys() {
                for (t, e) in F::out_list(w.member_node(*k).unwrap()) {
                    ex_edges.push((k.to_string(), t.to_string(), seed.and_then(|s| attrs_for_edge(s, *k, t, e)).unwrap_or_default()));
                }
            }
            ex_edges.sort();
            let strip = |v: &Vec<(String, String, Vec<(String, String)>)>| v.iter().map(|x| (x.0.clone(), x.1.clone())).collect::<Vec<_>>();
            if strip(&edges) != strip(&ex_edges) {
                return fail("dot.edge-statements", format!("got {:?} expected {:?}\n{}", strip(&d.edges), strip(&ex_edges), text));
            }
            if edges != ex_edges {
                return fail("dot.edge-attributes", format!("got {:?} expected {:?}", edges, ex_edges));
            }
            let mut ga = d.gattrs.clone();
            ga.sort();
            let mut ex_ga = seed.and_then(attrs_for_graph).unwrap_or_default();
            ex_ga.sort();
            if ga != ex_ga {
                return fail("dot.graph-attributes", format!("got {:?} expected {:?}", ga, ex_ga));
            }
            cls(st, if seed.is_some() { "op.to_dot_with_attr" } else { "op.to_dot" });
        }
        COp::Connect(u, v, e, via) => {
            // obtain the handle to u through the container when u is a member with its primary allocation
            let primary_member = w.members.get(&u) == Some(&Which::Primary);
            let h: F::Node = match (via, primary_member) {
                (Via::Get, true) => F::g_get(&w.g, u).ok_or(Fail { clause: "get.membership", detail: format!("get({}) is None for a member", u) })?,
                (Via::Index, true) => F::g_index(&w.g, u),
                (Via::Iter, true) => F::g_iter(&w.g).into_iter().find(|x| x.0 == u).map(|x| x.1).ok_or(Fail { clause: "iter.members", detail: format!("member {} not yielded", u) })?,
                (Via::ToVec, true) => F::g_to_vec(&w.g).into_iter().find(|x| F::key(x) == u).ok_or(Fail { clause: "to_vec.members", detail: format!("member {} not returned", u) })?,
                _ => w.prim[u as usize].clone(),
            };
            if via != Via::Direct && primary_member {
                cls(st, "op.connect-through-container-handle");
            }
            let before = F::out_list(&w.prim[u as usize]).len();
            F::connect(&h, &w.prim[v as usize], e);
            let after = F::out_list(&w.prim[u as usize]);
            if after.len() != before + if u == v && !F::DIRECTED { 2 } else { 1 } || !after.contains(&(v, e)) {
                return fail("handle.change-not-visible-through-other-handle", format!("connect through {:?} handle of {}: original handle lists {:?}", via, u, after));
            }
        }
        COp::ConnectBurst(u, count) => {
            for i in 0..count as usize {
                F::connect(&w.prim[u as usize], &w.prim[(u as usize + 1 + i) % n], (i % 3) as EV);
            }
            cls(st, "op.connect-burst");
        }
        COp::Disconnect(u, v) => {
            let _ = F::disconnect(&w.prim[u as usize], v);
        }
        COp::Isolate(u) => {
            F::isolate(&w.prim[u as usize]);
        }
        COp::Sizeof => {
            let _ = F::g_sizeof(&w.g);
        }
    }
    let _ = n;
    Ok(())
}

pub fn run_case<F: Flavour>(c: &CCase, st: &mut Stats, counting: bool) -> bool {
    if F::SYNC {
        hook::install_self_deadlock_detector();
    }
    let mut w: World<F> = World {
        prim: (0..c.n).map(|i| F::new_node(i as Key, NVal::plain(i as i32))).collect(),
        imp: (0..c.n).map(|i| F::new_node(i as Key, NVal::plain(1000 + i as i32))).collect(),
        g: if c.use_default { F::g_default() } else { F::g_new() },
        members: BTreeMap::new(),
    };
    if counting {
        st.eval();
    }
    for (i, op) in c.ops.iter().enumerate() {
        let container_call = !matches!(op, COp::Connect(..) | COp::ConnectBurst(..) | COp::Disconnect(..) | COp::Isolate(_));
        let lists = |w: &World<F>| -> Vec<(L, L)> { w.prim.iter().chain(w.imp.iter()).map(|x| (F::out_list(x), F::in_list(x))).collect() };
        let before = if container_call { catch_unwind(AssertUnwindSafe(|| lists(&w))).ok() } else { None };
        let r = catch_unwind(AssertUnwindSafe(|| {
            step::<F>(&mut w, op, st, counting)?;
            if let Some(b) = &before {
                let after = lists(&w);
                if *b != after {
                    let k = (0..b.len()).find(|&k| b[k] != after[k]).unwrap();
                    return fail("container-call.changed-edges", format!("node {}{}: lists before {:?} after {:?}", k % c.n, if k >= c.n { " (second node with that key)" } else { "" }, b[k], after[k]));
                }
            }
            Ok(())
        }));
        let res = match r {
            Ok(x) => x,
            Err(p) => {
                let m = panic_msg(p);
                fail(if m.starts_with(hook::SELF_DEADLOCK) { "op.self-deadlock" } else { "op.panic" }, m)
            }
        };
        if let Err(f) = res {
            let opname = format!("{:?}", op);
            let opname = opname.split('(').next().unwrap_or("").to_string();
            let mut cc = c.clone();
            cc.ops.truncate(i + 1);
            st.report(Finding {
                property: "C18".into(),
                flavour: F::NAME.into(),
                clause: f.clause.into(),
                signature: format!("{} | {} | {}", F::NAME, opname, f.clause),
                case: json!({"kind": "container", "flavour": F::NAME, "n": cc.n, "ops": cc.ops, "use_default": cc.use_default}),
                detail: format!("step {} {:?}: {}", i, op, f.detail),
            });
            return false;
        }
    }
    true
}

pub fn run_all(c: &CCase, st: &mut Stats, counting: bool, only: Option<&str>) -> bool {
    let mut ok = true;
    if counting {
        let dup = c.ops.iter().any(|o| matches!(o, COp::InsertImpostor(_)));
        let rem = c.ops.iter().any(|o| matches!(o, COp::Remove(_)));
        let edge_rm = c.ops.iter().any(|o| matches!(o, COp::Disconnect(..) | COp::Isolate(_)));
        let view = c.ops.iter().any(|o| matches!(o, COp::Views | COp::ToDot | COp::ToDotAttr(_)));
        if (dup || rem) && edge_rm && view {
            st.nontrivial(c);
        }
    }
    macro_rules! go {
        ($F:ty) => {
            if only.map_or(true, |o| o == <$F>::NAME) {
                ok &= run_case::<$F>(c, st, counting);
            }
        };
    }
    go!(Di);
    go!(SDi);
    go!(Un);
    go!(SUn);
    ok
}

fn op_strategy(n: usize) -> impl Strategy<Value = COp> {
    let k = move || (0..n as Key).boxed();
    let kx = move || (0..(n as Key + 2)).boxed(); // includes absent keys
    prop_oneof![
        5 => k().prop_map(COp::InsertPrimary),
        2 => k().prop_map(COp::InsertImpostor),
        2 => kx().prop_map(COp::Get),
        1 => k().prop_map(COp::Index),
        1 => kx().prop_map(COp::Contains),
        1 => Just(COp::Len),
        3 => kx().prop_map(COp::Remove),
        1 => Just(COp::ToVec),
        1 => Just(COp::Iter),
        3 => Just(COp::Views),
        1 => Just(COp::ToDot),
        2 => (0u8..12).prop_map(COp::ToDotAttr),
        6 => (k(), k(), 0u32..3, prop_oneof![Just(Via::Direct), Just(Via::Get), Just(Via::Index), Just(Via::Iter), Just(Via::ToVec)]).prop_map(|(u, v, e, via)| COp::Connect(u, v, e, via)),
        1 => (k(), 5u8..40).prop_map(|(u, c)| COp::ConnectBurst(u, c)),
        2 => (k(), k()).prop_map(|(u, v)| COp::Disconnect(u, v)),
        1 => k().prop_map(COp::Isolate),
        1 => Just(COp::Sizeof),
    ]
}

pub fn case_strategy(max_len: usize) -> impl Strategy<Value = CCase> {
    (1usize..=6, any::<bool>()).prop_flat_map(move |(n, use_default)| proptest::collection::vec(op_strategy(n), 0..=max_len).prop_map(move |ops| CCase { n, ops, use_default }))
}

/// small-scope enumeration: every sequence of <= `len` operations over a
/// reduced alphabet on 2 keys, followed by the full set of observations
fn enumerate(len: usize, st: &mut Stats, wd: &Watchdog, w: usize, workers: usize) {
    let alphabet: Vec<COp> = vec![
        COp::InsertPrimary(0),
        COp::InsertPrimary(1),
        COp::InsertImpostor(0),
        COp::Remove(0),
        COp::Remove(1),
        COp::Connect(0, 1, 1, Via::Get),
        COp::Connect(1, 0, 2, Via::Direct),
        COp::Connect(0, 0, 3, Via::Iter),
        COp::Disconnect(0, 1),
        COp::Isolate(0),
    ];
    let tail = vec![COp::Len, COp::Get(0), COp::Get(1), COp::Get(2), COp::Index(0), COp::Index(1), COp::Contains(0), COp::Contains(1), COp::ToVec, COp::Iter, COp::Views, COp::ToDot, COp::ToDotAttr(2), COp::ToDotAttr(7)];
    let a = alphabet.len();
    let mut i = 0u64;
    for l in 0..=len {
        let total = a.pow(l as u32);
        for code in 0..total {
            i += 1;
            if i % workers as u64 != w as u64 {
                continue;
            }
            wd.tick();
            let mut ops = vec![];
            let mut c = code;
            for _ in 0..l {
                ops.push(alphabet[c % a]);
                c /= a;
            }
            ops.extend(tail.iter().cloned());
            let case = CCase { n: 2, ops, use_default: code % 2 == 1 };
            if l == len && code % 997 == 3 {
                st.sample_kind("enumerated", 1, || json!({"enumerated_container_history": case}));
            }
            st.class("histories.enumerated");
            run_all(&case, st, true, None);
        }
    }
}

/// The documented idiom `g.insert(Node::new(k, v))`: the container holds the ONLY strong handle of every
/// node; edges are made through temporary handles from `get`. Then members are removed one by one (the
/// returned handles are kept so that no peer is released) and after every removal every node's lists, the
/// views and the DOT text are compared with the model.
#[derive(Clone, Debug, PartialEq, Eq, Hash, Serialize, Deserialize)]
pub struct SoleCase {
    pub n: usize,
    pub edges: Vec<(Key, Key, EV)>,
    pub removes: Vec<Key>,
}

pub fn run_sole<F: Flavour>(c: &SoleCase, st: &mut Stats, counting: bool) -> bool {
    if F::SYNC {
        hook::install_self_deadlock_detector();
    }
    if counting {
        st.eval();
    }
    let r = catch_unwind(AssertUnwindSafe(|| -> Result<(), Fail> {
        let n = c.n;
        let mut g = F::g_new();
        for i in 0..n {
            if !F::g_insert(&mut g, F::new_node(i as Key, NVal::plain(i as i32))) {
                return fail("insert.return", format!("fresh key {} rejected", i));
            }
        }
        let mut out: Vec<L> = vec![vec![]; n];
        let mut inc: Vec<L> = vec![vec![]; n];
        for &(u, v, e) in &c.edges {
            let hu = F::g_get(&g, u).ok_or(Fail { clause: "get.membership", detail: format!("get({}) is None for a member", u) })?;
            let hv = F::g_get(&g, v).ok_or(Fail { clause: "get.membership", detail: format!("get({}) is None for a member", v) })?;
            F::connect(&hu, &hv, e);
            out[u as usize].push((v, e));
            if F::DIRECTED {
                inc[v as usize].push((u, e));
            } else {
                out[v as usize].push((u, e));
            }
        }
        if !F::DIRECTED {
            out.iter_mut().for_each(|l| l.sort());
        }
        let mut removed: BTreeMap<Key, F::Node> = BTreeMap::new();
        let check = |g: &F::Graph, removed: &BTreeMap<Key, F::Node>, when: &str| -> Result<(), Fail> {
            let mut members: BTreeSet<Key> = BTreeSet::new();
            for k in 0..n as Key {
                let h = match (F::g_get(g, k), removed.get(&k)) {
                    (Some(h), None) => {
                        members.insert(k);
                        h
                    }
                    (None, Some(h)) => h.clone(),
                    (a, _) => return fail("get.membership", format!("{}: get({}) is_some={}", when, k, a.is_some())),
                };
                let (mut o, i) = (F::out_list(&h), F::in_list(&h));
                if !F::DIRECTED {
                    // an undirected node lists the edges it made before the ones made by its peers: order is C02/C03's business
                    o.sort();
                }
                if o != out[k as usize] || (F::DIRECTED && i != inc[k as usize]) {
                    return fail("container-call.changed-edges", format!("{}: node {} lists out {:?} in {:?}, expected out {:?} in {:?}", when, k, o, i, out[k as usize], inc[k as usize]));
                }
            }
            if F::g_len(g) != members.len() {
                return fail("len", format!("{}: len {} for {} members", when, F::g_len(g), members.len()));
            }
            let keys = |v: Vec<F::Node>| -> BTreeSet<Key> { v.iter().map(|x| F::key(x)).collect() };
            let ex = |p: &dyn Fn(Key) -> bool| -> BTreeSet<Key> { members.iter().cloned().filter(|k| p(*k)).collect() };
            if keys(F::g_orphans(g)) != ex(&|k| out[k as usize].is_empty() && inc[k as usize].is_empty()) {
                return fail("views.orphans", format!("{}: got {:?}", when, keys(F::g_orphans(g))));
            }
            if F::DIRECTED {
                if keys(F::g_roots(g)) != ex(&|k| inc[k as usize].is_empty()) {
                    return fail("views.roots", format!("{}: got {:?}", when, keys(F::g_roots(g))));
                }
                if keys(F::g_leaves(g)) != ex(&|k| out[k as usize].is_empty()) {
                    return fail("views.leaves", format!("{}: got {:?}", when, keys(F::g_leaves(g))));
                }
            }
            let text = F::g_to_dot(g);
            let d = parse_dot(&text).map_err(|e| Fail { clause: "dot.unparsable", detail: e })?;
            let mut got: Vec<(String, String)> = d.edges.iter().map(|x| (x.0.clone(), x.1.clone())).collect();
            got.sort();
            let mut exp: Vec<(String, String)> = members.iter().flat_map(|k| out[*k as usize].iter().map(move |(t, _)| (k.to_string(), t.to_string()))).collect();
            exp.sort();
            if got != exp {
                return fail("dot.edge-statements", format!("{}: got {:?} expected {:?}", when, got, exp));
            }
            Ok(())
        };
        check(&g, &removed, "before any removal")?;
        for &k in &c.removes {
            if removed.contains_key(&k) {
                if F::g_remove(&mut g, k).is_some() {
                    return fail("remove.membership", format!("second remove({}) returned a node", k));
                }
                continue;
            }
            let h = F::g_remove(&mut g, k).ok_or(Fail { clause: "remove.membership", detail: format!("remove({}) is None for a member", k) })?;
            if F::key(&h) != k {
                return fail("remove.different-node", format!("key {}", k));
            }
            removed.insert(k, h);
            if counting {
                st.class("sole-owner.remove");
            }
            check(&g, &removed, &format!("after remove({})", k))?;
        }
        Ok(())
    }));
    let res = match r {
        Ok(x) => x,
        Err(p) => {
            let m = panic_msg(p);
            fail(if m.starts_with(hook::SELF_DEADLOCK) { "op.self-deadlock" } else { "op.panic" }, m)
        }
    };
    if let Err(f) = res {
        st.report(Finding {
            property: "C18".into(),
            flavour: F::NAME.into(),
            clause: f.clause.into(),
            signature: format!("{} | container-is-sole-owner | {}", F::NAME, f.clause),
            case: json!({"kind": "container-sole-owner", "flavour": F::NAME, "n": c.n, "edges": c.edges, "removes": c.removes}),
            detail: f.detail,
        });
        return false;
    }
    true
}

pub fn run_sole_all(c: &SoleCase, st: &mut Stats, counting: bool, only: Option<&str>) -> bool {
    let mut ok = true;
    if counting && !c.edges.is_empty() && !c.removes.is_empty() {
        st.nontrivial(c);
    }
    macro_rules! go {
        ($F:ty) => {
            if only.map_or(true, |o| o == <$F>::NAME) {
                ok &= run_sole::<$F>(c, st, counting);
            }
        };
    }
    go!(Di);
    go!(SDi);
    go!(Un);
    go!(SUn);
    ok
}

pub fn sole_strategy() -> impl Strategy<Value = SoleCase> {
    (2usize..=6).prop_flat_map(|n| {
        let k = move || 0..n as Key;
        (proptest::collection::vec((k(), k(), 0u32..3), 0..=10), proptest::collection::vec(k(), 0..=n + 1)).prop_map(move |(mut edges, removes)| {
            // distinct endpoints only: self-loops of the undirected flavours have their own list shape (checked in C02/C03)
            edges.retain(|e| e.0 != e.1);
            SoleCase { n, edges, removes }
        })
    })
}

pub fn run(ctx: &mut Ctx) {
    ctx.rule = "cases = histories of container calls (insert of a fresh node / of a second node with an existing key, get, [], contains, len, is_empty, remove, to_vec, iter, roots/leaves/orphans, to_dot, to_dot_with_attr with generated attribute tables) interleaved with connect/disconnect/isolate on members and on removed nodes, where connect may go through a handle obtained from the container: (a) every sequence of <=L operations over a 10-letter alphabet on 2 keys followed by all observations; (b) proptest histories on 1-6 keys. (c) the documented idiom where the container is the ONLY owner of every node (inserted inline, edges made through temporary handles from get), then removals with all lists, views and DOT compared with an edge model after each. Oracle: a key->allocation map model compared call by call; no container call may change any node's edge lists; returned handles are the inserted allocation (pointer identity) and a connect through them is visible through the original handle; views = members filtered by their own edge lists; DOT text parsed line-wise. Non-trivial = history with (duplicate insert or remove) and an edge removal and a view/DOT observation; distinct = hash of the history.".into();
    ctx.assumptions = vec!["Index on absent keys is not exercised (std panics by contract)".into(), "edge operations only between nodes with distinct keys (precondition of C01-C03); same-key impostor nodes are only offered to insert".into()];
    let tier = ctx.tier;
    let seed = ctx.seed;
    let wd = ctx.watchdog.clone();
    let len = tier.pick(4usize, 5usize);
    let workers = 16usize;
    let enumerated = parallel(workers, |w| {
        let mut st = Stats::new();
        enumerate(len, &mut st, &wd, w, workers);
        st
    });
    let failed = enumerated.has_findings();
    ctx.stats.merge(enumerated);
    ctx.exhaustive = Some(!failed);
    ctx.stats.extra.insert("enumeration_bounds".into(), json!({"keys": 2, "alphabet": 10, "max_sequence_length": len}));
    let cases = tier.pick(3000u32, 30_000u32);
    let max_len = tier.pick(60usize, 150usize);
    let random = parallel(tier.pick(8, 16), |w| {
        let mut st = Stats::new();
        let cell = std::cell::RefCell::new(&mut st);
        let strat = case_strategy(max_len);
        let minimal = pt::run(seed, 400 + w as u64, cases, &strat, |c, counting| {
            wd.tick();
            if counting {
                let mut st = cell.borrow_mut();
                if c.ops.len() >= 10 {
                    st.sample_kind("random", 1, || json!({"container_history": c}));
                }
                run_all(c, &mut st, true, None)
            } else {
                let mut scratch = Stats::new();
                run_all(c, &mut scratch, false, None)
            }
        });
        drop(cell);
        if let Some(m) = minimal {
            let mut only = Stats::new();
            run_all(&m, &mut only, false, None);
            for (sig, f) in only.findings {
                st.findings.insert(sig, f);
            }
        }
        st
    });
    ctx.stats.merge(random);
    // (c) the container as the only owner of its nodes
    let sole_cases = tier.pick(1500u32, 20_000u32);
    let sole = parallel(tier.pick(4, 16), |w| {
        let mut st = Stats::new();
        let cell = std::cell::RefCell::new(&mut st);
        let strat = sole_strategy();
        let minimal = pt::run(seed, 450 + w as u64, sole_cases, &strat, |c, counting| {
            wd.tick();
            if counting {
                let mut st = cell.borrow_mut();
                st.class("histories.container-is-sole-owner");
                if c.edges.len() >= 3 && !c.removes.is_empty() {
                    st.sample_kind("sole-owner", 1, || json!({"sole_owner_case": c}));
                }
                run_sole_all(c, &mut st, true, None)
            } else {
                let mut scratch = Stats::new();
                run_sole_all(c, &mut scratch, false, None)
            }
        });
        drop(cell);
        if let Some(m) = minimal {
            st.findings.clear();
            run_sole_all(&m, &mut st, false, None);
        }
        st
    });
    ctx.stats.merge(sole);
    let _ = pt::idx(0, 1);
    let _: Option<State> = None;
}

pub fn replay(v: &Value, st: &mut Stats) -> Result<(), String> {
    if v["kind"] == "container-sole-owner" {
        let c: SoleCase = serde_json::from_value(json!({"n": v["n"], "edges": v["edges"], "removes": v["removes"]})).map_err(|e| e.to_string())?;
        if c.edges.iter().any(|e| e.0 as usize >= c.n || e.1 as usize >= c.n || e.0 == e.1) || c.removes.iter().any(|k| *k as usize >= c.n) {
            return Err("operand out of range".into());
        }
        run_sole_all(&c, st, true, v["flavour"].as_str());
        st.sample(|| json!({"replayed": c}));
        return Ok(());
    }
    let c: CCase = serde_json::from_value(json!({"n": v["n"], "ops": v["ops"], "use_default": v["use_default"].as_bool().unwrap_or(false)})).map_err(|e| e.to_string())?;
    for op in &c.ops {
        let ok = match *op {
            COp::InsertPrimary(k) | COp::InsertImpostor(k) | COp::Index(k) | COp::Isolate(k) | COp::ConnectBurst(k, _) => (k as usize) < c.n,
            COp::Connect(u, v, _, _) | COp::Disconnect(u, v) => (u as usize) < c.n && (v as usize) < c.n,
            _ => true,
        };
        if !ok {
            return Err("operand out of range".into());
        }
    }
    run_all(&c, st, true, v["flavour"].as_str());
    st.sample(|| json!({"replayed": c}));
    Ok(())
}
