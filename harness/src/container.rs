//! C11 (scc) and C12 (serde round-trip) on the Graph containers.
use crate::ctx::*;
use crate::flavour::*;
use crate::hist::observe;
use crate::hook;
use crate::model::*;
use crate::pt;
use crate::searchrun::{graphs_exact, rawg_strategy};
use crate::types::*;
use proptest::prelude::*;
use serde::{Deserialize, Serialize};
use serde_json::{json, Value};
use std::collections::{BTreeMap, BTreeSet};
use std::panic::{catch_unwind, AssertUnwindSafe};

/// container with the nodes of `g` inserted in `order`, edges connected in list order
pub fn build_graph<F: Flavour>(g: &GCase, order: &[usize]) -> (F::Graph, Vec<F::Node>) {
    let nodes: Vec<F::Node> = (0..g.n).map(|i| F::new_node(i as Key, NVal::plain(g.prio[i]))).collect();
    let mut c = F::g_new();
    for &i in order {
        F::g_insert(&mut c, nodes[i].clone());
    }
    for &(u, v, e) in &g.edges {
        F::connect(&nodes[u as usize], &nodes[v as usize], e);
    }
    (c, nodes)
}

fn orders(n: usize, k: usize) -> Vec<usize> {
    // k-th of a few deterministic insertion orders
    let mut v: Vec<usize> = (0..n).collect();
    match k % 4 {
        0 => {}
        1 => v.reverse(),
        2 => v.rotate_left(n / 2),
        _ => {
            // interleave from both ends
            let mut w = vec![];
            let (mut a, mut b) = (0usize, n);
            while a < b {
                w.push(v[a]);
                a += 1;
                if a < b {
                    b -= 1;
                    w.push(v[b]);
                }
            }
            v = w;
        }
    }
    v
}

/// a few large graphs (hash-map growth, long adjacency lists, many parallel edges): deterministic
pub fn big_graphs(sizes: &[usize]) -> Vec<GCase> {
    let mut out = vec![];
    let mut x = 0x9E3779B97F4A7C15u64;
    let mut rnd = move |k: usize| {
        x ^= x << 13;
        x ^= x >> 7;
        x ^= x << 17;
        (x % k as u64) as usize
    };
    for &n in sizes {
        // sparse random + a ring through everything + a hub + parallel edges with equal and distinct values
        let mut edges: Vec<Tri> = vec![];
        for i in 0..n {
            edges.push((i as Key, ((i + 1) % n) as Key, (i % 5) as EV));
        }
        for _ in 0..2 * n {
            edges.push((rnd(n) as Key, rnd(n) as Key, rnd(4) as EV));
        }
        for i in 1..n.min(40) {
            edges.push((0, i as Key, 7));
            edges.push((0, i as Key, (i % 3) as EV));
        }
        for i in 0..n.min(12) {
            edges.push((i as Key, i as Key, (i % 2) as EV));
        }
        out.push(GCase { n, prio: (0..n as i32).map(|i| i * 3 - 50).collect(), edges });
        // a DAG of chains with cross links (many components)
        let mut dag: Vec<Tri> = vec![];
        for i in 0..n - 1 {
            if i % 7 != 6 {
                dag.push((i as Key, (i + 1) as Key, 1));
            }
        }
        for _ in 0..n / 2 {
            let a = rnd(n - 1);
            let b = a + 1 + rnd(n - 1 - a);
            dag.push((a as Key, b as Key, 2));
        }
        // and a few back edges creating mid-size components
        for k in 0..n / 25 {
            let a = (k * 25 + 20).min(n - 1);
            dag.push((a as Key, (k * 25) as Key, 3));
        }
        out.push(GCase { n, prio: vec![0; n], edges: dag });
    }
    out
}

// ------------------------------------------------------------------ C11

#[derive(Clone, Debug, Serialize, Deserialize)]
pub struct SccCase {
    pub g: GCase,
    pub instances: usize,
}

fn scc_nontrivial(g: &GCase, comps: &BTreeSet<BTreeSet<Key>>) -> bool {
    let comp_of: BTreeMap<Key, usize> = comps.iter().enumerate().flat_map(|(i, c)| c.iter().map(move |k| (*k, i))).collect();
    let cross = g.edges.iter().any(|e| comp_of[&e.0] != comp_of[&e.1]);
    let big_non_cycle = comps.iter().any(|c| {
        if c.len() < 3 {
            return false;
        }
        let inner = g.edges.iter().filter(|e| c.contains(&e.0) && c.contains(&e.1)).map(|e| (e.0, e.1)).collect::<BTreeSet<_>>().len();
        inner != c.len()
    });
    cross || big_non_cycle
}

pub fn scc_case<F: Flavour>(c: &SccCase, st: &mut Stats, counting: bool) -> bool {
    if F::SYNC {
        hook::install_self_deadlock_detector();
    }
    let expect = scc_model(c.g.n, &c.g.edges);
    let mut ok = true;
    if counting && scc_nontrivial(&c.g, &expect) {
        st.nontrivial(&(F::NAME, &c.g));
    }
    let mut seen_orders: BTreeSet<Vec<Key>> = BTreeSet::new();
    for k in 0..c.instances {
        let order = orders(c.g.n, k);
        let (graph, _nodes) = build_graph::<F>(&c.g, &order);
        if counting {
            st.eval();
            seen_orders.insert(F::g_iter(&graph).iter().map(|x| x.0).collect());
        }
        let r = catch_unwind(AssertUnwindSafe(|| F::g_scc(&graph).iter().map(|comp| comp.iter().map(|n| F::key(n)).collect::<Vec<Key>>()).collect::<Vec<_>>()));
        let iter_order: Vec<Key> = F::g_iter(&graph).iter().map(|x| x.0).collect();
        let fail: Option<(&'static str, String)> = match r {
            Err(p) => {
                let m = panic_msg(p);
                Some((if m.starts_with(hook::SELF_DEADLOCK) { "scc.self-deadlock" } else { "scc.panic" }, m))
            }
            Ok(comps) => {
                let total: usize = comps.iter().map(|x| x.len()).sum();
                let all: BTreeSet<Key> = comps.iter().flatten().cloned().collect();
                let got: BTreeSet<BTreeSet<Key>> = comps.iter().map(|x| x.iter().cloned().collect()).collect();
                if total != c.g.n || all.len() != c.g.n {
                    Some(("scc.not-a-partition", format!("components {:?} over {} members", comps, c.g.n)))
                } else if got != expect {
                    Some(("scc.wrong-components", format!("got {:?}, strongly connected components are {:?}", comps, expect)))
                } else {
                    None
                }
            }
        };
        if let Some((clause, detail)) = fail {
            ok = false;
            st.report(Finding {
                property: "C11".into(),
                flavour: F::NAME.into(),
                clause: clause.into(),
                signature: format!("{} | scc | {}", F::NAME, clause),
                case: json!({"kind": "scc", "flavour": F::NAME, "g": c.g, "instances": 64, "insertion_order": order, "container_iteration_order_when_it_failed": iter_order}),
                detail,
            });
            break;
        }
    }
    if counting {
        st.class_n("scc.distinct-container-iteration-orders-seen", seen_orders.len() as u64);
    }
    // the same container asked again after its edges were rewired (same number of nodes and edges):
    // variant 0 reverses every edge, variant 1 reverses the first edge only, variant 2 redirects the last edge
    if ok && !c.g.edges.is_empty() {
        for variant in 0..3 {
            let mut g2 = c.g.clone();
            match variant {
                0 => g2.edges = c.g.edges.iter().map(|&(u, v, e)| (v, u, e)).collect(),
                1 => {
                    let (u, v, e) = g2.edges[0];
                    g2.edges[0] = (v, u, e);
                }
                _ => {
                    let l = g2.edges.len() - 1;
                    let (u, v, e) = g2.edges[l];
                    g2.edges[l] = (u, ((v as usize + 1) % c.g.n) as Key, e);
                }
            }
            if g2.edges == c.g.edges {
                continue;
            }
            let (graph, nodes) = build_graph::<F>(&c.g, &orders(c.g.n, variant));
            if counting {
                st.eval();
                st.class("scc.second-call-after-rewiring-the-same-container");
            }
            let r = catch_unwind(AssertUnwindSafe(|| {
                let _first = F::g_scc(&graph);
                for &(u, v, _) in &c.g.edges {
                    let _ = F::disconnect(&nodes[u as usize], v);
                }
                for &(u, v, e) in &g2.edges {
                    F::connect(&nodes[u as usize], &nodes[v as usize], e);
                }
                F::g_scc(&graph).iter().map(|comp| comp.iter().map(|n| F::key(n)).collect::<Vec<Key>>()).collect::<Vec<_>>()
            }));
            let expect2 = scc_model(g2.n, &g2.edges);
            let bad = match r {
                Err(p) => Some(("scc.panic", panic_msg(p))),
                Ok(comps) => {
                    let got: BTreeSet<BTreeSet<Key>> = comps.iter().map(|x| x.iter().cloned().collect()).collect();
                    let total: usize = comps.iter().map(|x| x.len()).sum();
                    if total != c.g.n || got != expect2 {
                        Some(("scc.second-call-on-the-same-container-wrong", format!("after rewiring to {:?}: got {:?}, components are {:?}", g2.edges, comps, expect2)))
                    } else {
                        None
                    }
                }
            };
            if let Some((clause, detail)) = bad {
                ok = false;
                st.report(Finding { property: "C11".into(), flavour: F::NAME.into(), clause: clause.into(), signature: format!("{} | scc | {}", F::NAME, clause), case: json!({"kind": "scc", "flavour": F::NAME, "g": c.g, "instances": 8, "note": "fails on the second scc() after the edges were rewired through the nodes"}), detail });
                break;
            }
        }
    }
    ok
}

fn scc_all(c: &SccCase, st: &mut Stats, counting: bool, only: Option<&str>) -> bool {
    let mut ok = true;
    if only.map_or(true, |o| o == Di::NAME) {
        ok &= scc_case::<Di>(c, st, counting);
    }
    if only.map_or(true, |o| o == SDi::NAME) {
        ok &= scc_case::<SDi>(c, st, counting);
    }
    ok
}

#[derive(Clone, Debug)]
pub struct RawScc {
    n: usize,
    comp: Vec<u8>,
    extra: Vec<(u16, u16, u8)>,
    chords: u8,
}

fn rawscc_strategy() -> impl Strategy<Value = RawScc> {
    (1usize..=30, 1u8..=6, 0u8..4).prop_flat_map(|(n, ncomp, chords)| (proptest::collection::vec(0u8..ncomp, n), proptest::collection::vec((any::<u16>(), any::<u16>(), 0u8..100), 0..=2 * n)).prop_map(move |(comp, extra)| RawScc { n, comp, extra, chords }))
}

impl RawScc {
    fn graph(&self) -> GCase {
        let n = self.n;
        let mut edges: Vec<(Key, Key)> = vec![];
        // planted components: a cycle through the members of each label plus chords
        let mut by: BTreeMap<u8, Vec<Key>> = BTreeMap::new();
        for (i, c) in self.comp.iter().enumerate() {
            by.entry(*c).or_default().push(i as Key);
        }
        for members in by.values() {
            if members.len() >= 2 {
                for w in 0..members.len() {
                    edges.push((members[w], members[(w + 1) % members.len()]));
                }
                for k in 0..self.chords as usize {
                    let a = members[(k * 7 + 1) % members.len()];
                    let b = members[(k * 3) % members.len()];
                    edges.push((a, b));
                }
            }
        }
        // extra edges: mostly "downhill" between labels (keeps the planted structure), some arbitrary
        for &(u, v, coin) in &self.extra {
            let (a, b) = (pt::idx(u, n), pt::idx(v, n));
            if coin < 70 {
                let (x, y) = if self.comp[a] <= self.comp[b] { (a, b) } else { (b, a) };
                edges.push((x as Key, y as Key));
            } else {
                edges.push((a as Key, b as Key));
            }
        }
        // deterministic shuffle so that insertion order is not the construction order
        let m = edges.len();
        for i in (1..m).rev() {
            let j = (i * 2654435761usize + self.extra.len()) % (i + 1);
            edges.swap(i, j);
        }
        GCase { n, prio: (0..n as i32).collect(), edges: edges.iter().enumerate().map(|(i, &(u, v))| (u, v, i as EV)).collect() }
    }
}

pub fn run_c11(ctx: &mut Ctx) {
    ctx.rule = "cases = (directed graph, container instance, insertion order): (a) every simple digraph with self-loops on <=N nodes (all 2^(N*N) edge subsets; N in `enumeration_bounds`) x 4 fresh containers with 4 insertion orders (each container has its own random hash keys, so iteration orders differ); (b) proptest graphs up to 30 nodes with planted components (cycles + chords), downhill inter-component edges and arbitrary extra edges x 3 containers. Oracle: partition of the members equal to pairwise-reachability components. Non-trivial = some component with >=3 nodes that is not a simple cycle, or edges between components; distinct = hash of (flavour, graph).".into();
    ctx.assumptions = vec!["all neighbours are members (precondition in the statement)".into(), "the container's iteration order cannot be seeded (ahash per-instance keys); it is sampled by instantiating several containers per graph and the number of distinct orders seen is reported".into()];
    let tier = ctx.tier;
    let seed = ctx.seed;
    let wd = ctx.watchdog.clone();
    let max_n = tier.pick(4usize, 4usize);
    let inst = tier.pick(6usize, 12usize);
    let workers = 16usize;
    let enumerated = parallel(workers, |w| {
        let mut st = Stats::new();
        let mut i = 0u64;
        for n in 1..=max_n {
            for mask in 0u32..(1u32 << (n * n)) {
                i += 1;
                if i % workers as u64 != w as u64 {
                    continue;
                }
                wd.tick();
                let edges: Vec<Tri> = (0..n * n).filter(|b| mask >> b & 1 == 1).enumerate().map(|(k, b)| ((b / n) as Key, (b % n) as Key, k as EV)).collect();
                let c = SccCase { g: GCase { n, prio: vec![0; n], edges }, instances: inst };
                if n == 4 && mask % 9973 == 17 {
                    st.sample_kind("enumerated", 1, || json!({"enumerated_digraph": c.g, "instances": inst}));
                }
                scc_all(&c, &mut st, true, None);
            }
        }
        st
    });
    let failed = enumerated.has_findings();
    ctx.stats.merge(enumerated);
    ctx.exhaustive = Some(!failed);
    ctx.stats.extra.insert("enumeration_bounds".into(), json!({"max_nodes": max_n, "graphs": (1..=max_n).map(|n| 1u64 << (n * n)).sum::<u64>(), "instances_per_graph": inst}));
    {
        let sizes: Vec<usize> = tier.pick(vec![64, 150, 300], vec![64, 150, 300, 700, 1500]);
        let mut st = Stats::new();
        for g in big_graphs(&sizes) {
            wd.tick();
            st.class("graphs.large-constructed");
            scc_all(&SccCase { g, instances: 3 }, &mut st, true, None);
        }
        ctx.stats.merge(st);
        ctx.stats.extra.insert("large_constructed_sizes".into(), json!(sizes));
    }
    {
        let deep: Vec<usize> = tier.pick(vec![2100, 5000, 12_000, 20_000, 40_000, 70_000], vec![2100, 5000, 12_000, 20_000, 40_000, 70_000, 140_000, 300_000]);
        let jobs: Vec<(&str, usize)> = DEEP_SHAPES.iter().flat_map(|s| deep.iter().map(move |n| (*s, *n))).collect();
        let part = parallel(jobs.len(), |w| {
            wd.tick();
            scc_deep_all(jobs[w].0, jobs[w].1, None)
        });
        ctx.stats.merge(part);
        ctx.stats.extra.insert("deep_graph_sizes".into(), json!(deep));
    }
    let cases = tier.pick(5000u32, 40_000u32);
    let random = parallel(tier.pick(8, 16), |w| {
        let mut st = Stats::new();
        let cell = std::cell::RefCell::new(&mut st);
        let strat = rawscc_strategy();
        let minimal = pt::run(seed, 200 + w as u64, cases, &strat, |raw, counting| {
            wd.tick();
            let c = SccCase { g: raw.graph(), instances: 3 };
            if counting {
                let mut st = cell.borrow_mut();
                st.class(&format!("random.n.{}", match c.g.n { 0..=4 => "1-4", 5..=12 => "5-12", _ => "13-30" }));
                let comps = scc_model(c.g.n, &c.g.edges);
                st.class(&format!("random.components.{}", match comps.len() { 1 => "1", 2..=3 => "2-3", 4..=8 => "4-8", _ => "9+" }));
                if c.g.n >= 6 {
                    st.sample_kind("random", 1, || json!({"random_digraph": c.g, "components": comps}));
                }
                scc_all(&c, &mut st, true, None)
            } else {
                let mut scratch = Stats::new();
                scc_all(&c, &mut scratch, false, None)
            }
        });
        drop(cell);
        if let Some(m) = minimal {
            let mut only = Stats::new();
            scc_all(&SccCase { g: m.graph(), instances: 16 }, &mut only, false, None);
            for (sig, f) in only.findings {
                st.findings.insert(sig, f);
            }
        }
        st
    });
    ctx.stats.merge(random);
}

/// deep graphs for the recursive orderings behind scc(): a chain, a chain of 2-cycles, a chain with a back edge
/// every 100 nodes. Run on a thread with a large stack (the library recurses once per level); judged against an
/// independent Tarjan.
pub fn deep_graph(shape: &str, n: usize) -> GCase {
    let mut edges: Vec<Tri> = (0..n - 1).map(|i| (i as Key, (i + 1) as Key, 1)).collect();
    match shape {
        "chain-of-2-cycles" => edges.extend((0..n / 2).map(|i| ((2 * i + 1) as Key, (2 * i) as Key, 2))),
        "chain-with-back-edges" => edges.extend((0..n / 100).map(|k| ((100 * k + 99) as Key, (100 * k) as Key, 3))),
        // nodes 0..n-2 form a ring, every ring node points at node n-2... no: ring over 0..n-3, sinks A = n-2, B = n-1
        "ring-with-sinks" => {
            edges.clear();
            let r = n - 2;
            edges.extend((0..r).map(|i| (i as Key, ((i + 1) % r) as Key, 1)));
            edges.extend((0..r).map(|i| (i as Key, r as Key, 2)));
            edges.push((r as Key, (r + 1) as Key, 3));
        }
        _ => {}
    }
    GCase { n, prio: vec![0; n], edges }
}
pub const DEEP_SHAPES: [&str; 4] = ["chain", "chain-of-2-cycles", "chain-with-back-edges", "ring-with-sinks"];

fn scc_deep<F: Flavour>(shape: &str, n: usize, st: &mut Stats) {
    let g = deep_graph(shape, n);
    let expect = scc_tarjan(g.n, &g.edges);
    for (oi, order) in [(0..n).collect::<Vec<usize>>(), (0..n).rev().collect::<Vec<usize>>()].iter().enumerate() {
        st.eval();
        st.class(&format!("graphs.deep.{}", shape));
        st.nontrivial(&(F::NAME, shape, n, oi));
        let (graph, _nodes) = build_graph::<F>(&g, order);
        let r = catch_unwind(AssertUnwindSafe(|| F::g_scc(&graph).iter().map(|comp| comp.iter().map(|n| F::key(n)).collect::<BTreeSet<Key>>()).collect::<Vec<_>>()));
        let fail: Option<(&'static str, String)> = match r {
            Err(p) => Some(("scc.panic", panic_msg(p))),
            Ok(comps) => {
                let total: usize = comps.iter().map(|x| x.len()).sum();
                let got: BTreeSet<BTreeSet<Key>> = comps.into_iter().collect();
                if total != n {
                    Some(("scc.not-a-partition", format!("{} entries over {} members", total, n)))
                } else if got != expect {
                    let sizes = |s: &BTreeSet<BTreeSet<Key>>| { let mut m: BTreeMap<usize, usize> = BTreeMap::new(); for c in s { *m.entry(c.len()).or_insert(0) += 1; } m };
                    Some(("scc.wrong-components", format!("component sizes (size -> count) got {:?}, expected {:?}", sizes(&got), sizes(&expect))))
                } else {
                    None
                }
            }
        };
        if let Some((clause, detail)) = fail {
            st.report(Finding {
                property: "C11".into(),
                flavour: F::NAME.into(),
                clause: clause.into(),
                signature: format!("{} | scc | {}", F::NAME, clause),
                case: json!({"kind": "scc-deep", "flavour": F::NAME, "shape": shape, "n": n}),
                detail,
            });
            return;
        }
    }
}

pub fn scc_deep_all(shape: &str, n: usize, only: Option<&str>) -> Stats {
    let (shape, only) = (shape.to_string(), only.map(|s| s.to_string()));
    let h = std::thread::Builder::new().stack_size(4usize << 30).spawn(move || {
        let mut st = Stats::new();
        if only.as_deref().map_or(true, |o| o == Di::NAME) {
            scc_deep::<Di>(&shape, n, &mut st);
        }
        if only.as_deref().map_or(true, |o| o == SDi::NAME) {
            scc_deep::<SDi>(&shape, n, &mut st);
        }
        st
    });
    match h.map(|h| h.join()) {
        Ok(Ok(st)) => st,
        _ => {
            let mut st = Stats::new();
            st.harness_errors.push(format!("deep scc thread ({} {}) could not be run to completion", shape_name(n), n));
            st
        }
    }
}
fn shape_name(_n: usize) -> &'static str {
    "deep"
}

pub fn replay_c11(v: &Value, st: &mut Stats) -> Result<(), String> {
    if v["kind"] == "scc-deep" {
        let shape = v["shape"].as_str().unwrap_or("chain");
        let n = v["n"].as_u64().unwrap_or(5000) as usize;
        if !DEEP_SHAPES.contains(&shape) || n < 4 || n > 400_000 {
            return Err("malformed deep case".into());
        }
        st.merge(scc_deep_all(shape, n, v["flavour"].as_str()));
        return Ok(());
    }
    let g: GCase = serde_json::from_value(v["g"].clone()).map_err(|e| e.to_string())?;
    if g.edges.iter().any(|e| e.0 as usize >= g.n || e.1 as usize >= g.n) {
        return Err("malformed graph".into());
    }
    let c = SccCase { g, instances: v["instances"].as_u64().unwrap_or(64) as usize };
    scc_all(&c, st, true, v["flavour"].as_str());
    st.sample(|| json!({"replayed": c}));
    Ok(())
}

// ------------------------------------------------------------------ C12

#[derive(Clone, Copy, Debug, PartialEq, Eq, Hash, PartialOrd, Ord, Serialize, Deserialize)]
pub enum Fmt {
    Json,
    Cbor,
}

fn wire_shape_json(doc: &str, g: &GCase, directed: bool) -> Result<(), Fail> {
    let v: Value = serde_json::from_str(doc).map_err(|e| Fail { clause: "wire.unparsable", detail: e.to_string() })?;
    let arr = v.as_array().ok_or(Fail { clause: "wire.not-a-2-tuple", detail: doc.into() })?;
    if arr.len() != 2 {
        return fail("wire.not-a-2-tuple", doc);
    }
    let nodes: Vec<(u64, i64)> = arr[0].as_array().map(|a| a.iter().filter_map(|x| Some((x.get(0)?.as_u64()?, x.get(1)?.as_i64()?))).collect()).unwrap_or_default();
    let edges: Vec<(u64, u64, u64)> = arr[1].as_array().map(|a| a.iter().filter_map(|x| Some((x.get(0)?.as_u64()?, x.get(1)?.as_u64()?, x.get(2)?.as_u64()?))).collect()).unwrap_or_default();
    wire_lists(&nodes, &edges, arr[0].as_array().map_or(0, |a| a.len()), arr[1].as_array().map_or(0, |a| a.len()), g, directed)
}

fn wire_shape_cbor(doc: &[u8], g: &GCase, directed: bool) -> Result<(), Fail> {
    use serde_cbor::Value as C;
    let v: C = serde_cbor::from_slice(doc).map_err(|e| Fail { clause: "wire.unparsable", detail: e.to_string() })?;
    let C::Array(arr) = v else { return fail("wire.not-a-2-tuple", "top level is not an array") };
    if arr.len() != 2 {
        return fail("wire.not-a-2-tuple", format!("{} elements", arr.len()));
    }
    let int = |c: &C| -> Option<i128> {
        if let C::Integer(i) = c {
            Some(*i)
        } else {
            None
        }
    };
    let list = |c: &C| -> Vec<Vec<i128>> {
        if let C::Array(a) = c {
            a.iter().filter_map(|x| if let C::Array(t) = x { t.iter().map(int).collect::<Option<Vec<_>>>() } else { None }).collect()
        } else {
            vec![]
        }
    };
    let len = |c: &C| if let C::Array(a) = c { a.len() } else { 0 };
    let nodes: Vec<(u64, i64)> = list(&arr[0]).iter().filter(|t| t.len() == 2).map(|t| (t[0] as u64, t[1] as i64)).collect();
    let edges: Vec<(u64, u64, u64)> = list(&arr[1]).iter().filter(|t| t.len() == 3).map(|t| (t[0] as u64, t[1] as u64, t[2] as u64)).collect();
    wire_lists(&nodes, &edges, len(&arr[0]), len(&arr[1]), g, directed)
}

fn wire_lists(nodes: &[(u64, i64)], edges: &[(u64, u64, u64)], raw_nodes: usize, raw_edges: usize, g: &GCase, directed: bool) -> Result<(), Fail> {
    if nodes.len() != raw_nodes || edges.len() != raw_edges {
        return fail("wire.entry-shape", "a node entry is not (key, value) or an edge entry is not (key, key, value)");
    }
    let mut ns: Vec<(u64, i64)> = nodes.to_vec();
    ns.sort();
    let expect: Vec<(u64, i64)> = (0..g.n).map(|i| (i as u64, g.prio[i] as i64)).collect();
    if ns != expect {
        return fail("wire.node-list", format!("document lists nodes {:?}, members are {:?}", ns, expect));
    }
    let canon = |u: u64, v: u64, e: u64| if directed || u <= v { (u, v, e) } else { (v, u, e) };
    let got = multiset(&edges.iter().map(|&(u, v, e)| canon(u, v, e)).collect::<Vec<_>>());
    let want = multiset(&g.edges.iter().map(|&(u, v, e)| canon(u as u64, v as u64, e as u64)).collect::<Vec<_>>());
    if got != want {
        return fail("wire.edge-list", format!("document lists edges {:?}, the graph has {:?}", got, want));
    }
    Ok(())
}

/// compare a deserialised container with the graph it was produced from
pub fn same_graph<F: Flavour>(g: &GCase, de: &F::Graph) -> Result<(), Fail> {
    let mut members: Vec<(Key, i32)> = F::g_iter(de).iter().map(|(k, n)| (*k, F::prio(n))).collect();
    members.sort();
    let expect: Vec<(Key, i32)> = (0..g.n).map(|i| (i as Key, g.prio[i])).collect();
    if members.iter().map(|x| x.0).collect::<Vec<_>>() != expect.iter().map(|x| x.0).collect::<Vec<_>>() {
        return fail("roundtrip.keys", format!("got {:?} expected {:?}", members, expect));
    }
    if members != expect {
        return fail("roundtrip.node-values", format!("got {:?} expected {:?}", members, expect));
    }
    if F::g_len(de) != g.n {
        return fail("roundtrip.keys", format!("len() = {} for {} members", F::g_len(de), g.n));
    }
    let nodes: Vec<F::Node> = (0..g.n).map(|i| F::g_get(de, i as Key).unwrap()).collect();
    for (k, n) in F::g_iter(de) {
        if F::key(&n) != k {
            return fail("roundtrip.keys", format!("member stored under key {} has key {}", k, F::key(&n)));
        }
    }
    let obs = observe::<F>(&nodes).map_err(|p| Fail { clause: "roundtrip.unreadable", detail: p })?;
    if F::DIRECTED {
        let v = g.view_directed(false);
        let vt = g.view_directed(true);
        for u in 0..g.n {
            if obs.out[u] != v.inc[u] {
                return if multiset(&obs.out[u]) == multiset(&v.inc[u]) {
                    fail("roundtrip.out-edge-order", format!("node {}: {:?} expected {:?}", u, obs.out[u], v.inc[u]))
                } else {
                    fail("roundtrip.out-edges", format!("node {}: {:?} expected {:?}", u, obs.out[u], v.inc[u]))
                };
            }
            if multiset(&obs.inc[u]) != multiset(&vt.inc[u]) {
                return fail("roundtrip.in-edges", format!("node {}: {:?} expected {:?}", u, obs.inc[u], vt.inc[u]));
            }
        }
        d_inv(&obs).map_err(|f| Fail { clause: "roundtrip.mirror-broken", detail: f.detail })?;
    } else {
        let v = g.view_undirected();
        for u in 0..g.n {
            if multiset(&obs.out[u]) != multiset(&v.inc[u]) {
                return fail("roundtrip.incident-edges", format!("node {}: {:?} expected {:?}", u, obs.out[u], v.inc[u]));
            }
            if F::out_degree(&nodes[u]) != v.inc[u].len() {
                return fail("roundtrip.incident-edges", format!("node {}: degree {} expected {}", u, F::out_degree(&nodes[u]), v.inc[u].len()));
            }
        }
        u_inv(&obs).map_err(|f| Fail { clause: "roundtrip.symmetry-broken", detail: f.detail })?;
    }
    Ok(())
}

pub fn serde_case<F: Flavour>(g: &GCase, instances: usize, st: &mut Stats, counting: bool) -> bool {
    if F::SYNC {
        hook::install_self_deadlock_detector();
    }
    let mut ok = true;
    for k in 0..instances {
        let order = orders(g.n, k);
        for fmt in [Fmt::Json, Fmt::Cbor] {
            if counting {
                st.eval();
                st.class(&format!("format.{:?}.{}", fmt, F::NAME));
            }
            let r = catch_unwind(AssertUnwindSafe(|| -> Result<(), Fail> {
                let (mut graph, _nodes) = build_graph::<F>(g, &order);
                // a container with a history: on some instances a member is removed and inserted again, and a
                // stranger is inserted and removed (the serialised graph is the same graph)
                if k % 2 == 1 && g.n > 0 {
                    let victim = ((k / 2) % g.n) as Key;
                    if let Some(nd) = F::g_remove(&mut graph, victim) {
                        F::g_insert(&mut graph, nd);
                    }
                    let stranger = F::new_node(60_000, NVal::plain(1));
                    F::g_insert(&mut graph, stranger);
                    let _ = F::g_remove(&mut graph, 60_000);
                    if counting {
                        st.class("container.member-removed-and-reinserted-before-serialising");
                    }
                }
                let de = match fmt {
                    Fmt::Json => {
                        let doc = F::ser_json(&graph).map_err(|e| Fail { clause: "serialize.error", detail: e })?;
                        wire_shape_json(&doc, g, F::DIRECTED)?;
                        F::de_json(doc.as_bytes()).map_err(|e| Fail { clause: "deserialize.own-output-rejected", detail: format!("{} :: {}", e, doc.chars().take(4000).collect::<String>()) })?
                    }
                    Fmt::Cbor => {
                        let doc = F::ser_cbor(&graph).map_err(|e| Fail { clause: "serialize.error", detail: e })?;
                        wire_shape_cbor(&doc, g, F::DIRECTED)?;
                        F::de_cbor(&doc).map_err(|e| Fail { clause: "deserialize.own-output-rejected", detail: e })?
                    }
                };
                same_graph::<F>(g, &de)?;
                // the original is untouched by serialisation
                same_graph::<F>(g, &graph).map_err(|f| Fail { clause: "serialize.changed-the-original", detail: f.detail })
            }));
            let res = match r {
                Ok(x) => x,
                Err(p) => fail("roundtrip.panic", panic_msg(p)),
            };
            if let Err(f) = res {
                ok = false;
                st.report(Finding {
                    property: "C12".into(),
                    flavour: F::NAME.into(),
                    clause: f.clause.into(),
                    signature: format!("{} | {:?} | {}", F::NAME, fmt, f.clause),
                    case: json!({"kind": "serde", "flavour": F::NAME, "g": g, "instances": 16, "format": fmt}),
                    detail: f.detail,
                });
            }
        }
    }
    ok
}

fn serde_all(g: &GCase, instances: usize, st: &mut Stats, counting: bool, only: Option<&str>) -> bool {
    let mut ok = true;
    if counting {
        let selfloop = g.edges.iter().any(|e| e.0 == e.1);
        let par = g.edges.iter().map(|e| (e.0.min(e.1), e.0.max(e.1))).collect::<BTreeSet<_>>().len() < g.edges.len();
        if selfloop || par {
            st.nontrivial(g);
        }
        if selfloop {
            st.class("graph.has-self-loop");
        }
        if par {
            st.class("graph.has-parallel-or-antiparallel-edges");
        }
    }
    macro_rules! go {
        ($F:ty) => {
            if only.map_or(true, |o| o == <$F>::NAME) {
                ok &= serde_case::<$F>(g, instances, st, counting);
            }
        };
    }
    go!(Di);
    go!(SDi);
    go!(Un);
    go!(SUn);
    ok
}

pub fn run_c12(ctx: &mut Ctx) {
    ctx.rule = "cases = (graph, container instance/insertion order, wire format) on all four container types: (a) every ordered multigraph on <=3 nodes with <=M edges (M in `enumeration_bounds`), once with pairwise distinct edge values and once with values i mod 2 (equal-valued parallel edges), distinct node values; (b) proptest graphs up to 40 nodes (self-loop / parallel-edge knobs); (c) constructed graphs of 64-300 nodes and dense graphs whose edge count in one document crosses 2^16 and 2^20 (`dense_constructed_nodes_x_outdegree`). Oracle: deserialise(serialise(g)) has the same keys and node values, the same out-edge sequence per node (directed) / the same incident-edge multiset (undirected), satisfies the mirror/symmetry invariant, and the document (parsed as untyped JSON/CBOR value) is a 2-tuple listing exactly the members and exactly one entry per edge. Non-trivial = graph with a self-loop or parallel/antiparallel edges; distinct = hash of the graph.".into();
    ctx.assumptions = vec!["JSON via serde_json and CBOR via serde_cbor stand for 'every wire format with a serde implementation'".into()];
    let tier = ctx.tier;
    let seed = ctx.seed;
    let wd = ctx.watchdog.clone();
    let bounds: Vec<(usize, usize)> = tier.pick(vec![(1, 4), (2, 5), (3, 4)], vec![(1, 5), (2, 6), (3, 5), (4, 4)]);
    let workers = 16usize;
    let enumerated = parallel(workers, |w| {
        let mut st = Stats::new();
        let mut i = 0u64;
        for &(n, maxm) in &bounds {
            for m in 0..=maxm {
                graphs_exact(n, m, |g0| {
                    i += 1;
                    if i % workers as u64 != w as u64 {
                        return;
                    }
                    wd.tick();
                    for variant in 0..2 {
                        let mut g = g0.clone();
                        g.prio = (0..n as i32).map(|k| 10 * k - 7).collect();
                        if variant == 1 {
                            if m < 2 {
                                continue;
                            }
                            for (k, e) in g.edges.iter_mut().enumerate() {
                                e.2 = (k % 2) as EV;
                            }
                        }
                        if m >= 3 {
                            st.sample_kind("enumerated", 1, || json!({"enumerated_graph": g}));
                        }
                        serde_all(&g, 2, &mut st, true, None);
                    }
                });
            }
        }
        st
    });
    let failed = enumerated.has_findings();
    ctx.stats.merge(enumerated);
    ctx.exhaustive = Some(!failed);
    ctx.stats.extra.insert("enumeration_bounds".into(), json!(bounds.iter().map(|b| json!({"nodes": b.0, "max_edges": b.1})).collect::<Vec<_>>()));
    {
        let sizes: Vec<usize> = tier.pick(vec![64, 150, 300], vec![64, 150, 300, 700, 1500]);
        let mut st = Stats::new();
        for g in big_graphs(&sizes) {
            wd.tick();
            st.class("graphs.large-constructed");
            serde_all(&g, 2, &mut st, true, None);
        }
        ctx.stats.merge(st);
        ctx.stats.extra.insert("large_constructed_sizes".into(), json!(sizes));
    }
    {
        // dense graphs: the number of edges in one document crosses 2^16 and 2^20 (length prefixes, size hints and
        // pre-sized buffers of the wire formats and of the deserialiser); one flavour per worker
        let dense: Vec<(usize, usize)> = tier.pick(vec![(270, 260), (1100, 960)], vec![(270, 260), (1100, 960)]);
        for &(n, d) in &dense {
            let mut edges: Vec<Tri> = Vec::with_capacity(n * d);
            for i in 0..n {
                for j in 0..d {
                    edges.push((i as Key, ((i + j + 1) % n) as Key, ((i + 2 * j) % 5) as EV));
                }
            }
            let g = GCase { n, prio: (0..n as i32).map(|i| i * 7 - 11).collect(), edges };
            let dense_st = parallel(4, |w| {
                let mut st = Stats::new();
                wd.tick();
                st.class("graphs.dense-constructed");
                serde_all(&g, 1, &mut st, true, Some([Di::NAME, SDi::NAME, Un::NAME, SUn::NAME][w]));
                wd.tick();
                st
            });
            ctx.stats.merge(dense_st);
        }
        ctx.stats.extra.insert("dense_constructed_nodes_x_outdegree".into(), json!(dense));
    }
    let cases = tier.pick(3000u32, 30_000u32);
    let random = parallel(tier.pick(8, 16), |w| {
        let mut st = Stats::new();
        let cell = std::cell::RefCell::new(&mut st);
        let strat = rawg_strategy(40);
        let minimal = pt::run(seed, 300 + w as u64, cases, &strat, |raw, counting| {
            wd.tick();
            let mut g = raw.graph();
            for (k, p) in g.prio.iter_mut().enumerate() {
                *p = *p * 1000 - k as i32;
            }
            if counting {
                let mut st = cell.borrow_mut();
                if g.n >= 5 {
                    st.sample_kind("random", 1, || json!({"random_graph": g}));
                }
                serde_all(&g, 2, &mut st, true, None)
            } else {
                let mut scratch = Stats::new();
                serde_all(&g, 2, &mut scratch, false, None)
            }
        });
        drop(cell);
        if let Some(m) = minimal {
            let mut only = Stats::new();
            let mut g = m.graph();
            for (k, p) in g.prio.iter_mut().enumerate() {
                *p = *p * 1000 - k as i32;
            }
            serde_all(&g, 4, &mut only, false, None);
            for (sig, f) in only.findings {
                st.findings.insert(sig, f);
            }
        }
        st
    });
    ctx.stats.merge(random);
}

pub fn replay_c12(v: &Value, st: &mut Stats) -> Result<(), String> {
    let g: GCase = serde_json::from_value(v["g"].clone()).map_err(|e| e.to_string())?;
    if g.prio.len() != g.n || g.edges.iter().any(|e| e.0 as usize >= g.n || e.1 as usize >= g.n) {
        return Err("malformed graph".into());
    }
    serde_all(&g, v["instances"].as_u64().unwrap_or(16) as usize, st, true, v["flavour"].as_str());
    st.sample(|| json!({"replayed": g}));
    Ok(())
}
