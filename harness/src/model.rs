//! Reference model: plain-data multigraph states, the step relation of the
//! edge operations (C03), the mirror / symmetry invariants (C01, C02) and
//! obviously-correct graph algorithms used as oracles by the search checks.
use crate::types::*;
use serde::{Deserialize, Serialize};
use std::collections::{BTreeMap, BTreeSet, VecDeque};

pub type L = Vec<(Key, EV)>;

/// A violated oracle clause: a fixed identifier from a closed list (never
/// contains keys or values) plus a human-readable detail.
#[derive(Clone, Debug)]
pub struct Fail {
    pub clause: &'static str,
    pub detail: String,
}
pub fn fail<T>(clause: &'static str, detail: impl Into<String>) -> Result<T, Fail> {
    Err(Fail { clause, detail: detail.into() })
}

/// Observed adjacency state. Directed: `out[u]` = (target, value) in
/// iteration order, `inc[v]` = (source, value). Undirected: `out[u]` is the
/// incidence list (peer, value) and `inc` is all-empty.
#[derive(Clone, Debug, PartialEq, Eq, Hash, PartialOrd, Ord, Serialize, Deserialize)]
pub struct State {
    pub out: Vec<L>,
    pub inc: Vec<L>,
}
impl State {
    pub fn empty(n: usize) -> State {
        State { out: vec![vec![]; n], inc: vec![vec![]; n] }
    }
    pub fn n(&self) -> usize {
        self.out.len()
    }
    pub fn edge_count_directed(&self) -> usize {
        self.out.iter().map(|l| l.len()).sum()
    }
    pub fn edge_count_undirected(&self) -> usize {
        self.out.iter().map(|l| l.len()).sum::<usize>() / 2
    }
}

#[derive(Clone, Copy, Debug, PartialEq, Eq, Hash, PartialOrd, Ord, Serialize, Deserialize)]
pub enum OpKind {
    Connect,
    TryConnect,
    Disconnect,
    Isolate,
    /// is_connected / find_* / degree on (u, v): must not change anything (and may set hidden lookup state)
    Lookup,
}
#[derive(Clone, Debug, PartialEq, Eq, PartialOrd, Ord, Hash, Serialize, Deserialize)]
pub enum Ret {
    Unit,
    Ok,
    ErrExists,
    ErrNotFound,
    Val(EV),
    Panic(String),
}

fn ms(l: &L) -> BTreeMap<(Key, EV), usize> {
    let mut m = BTreeMap::new();
    for x in l {
        *m.entry(*x).or_insert(0) += 1;
    }
    m
}
fn is_subseq(small: &L, big: &L) -> bool {
    let mut i = 0;
    for x in big {
        if i < small.len() && small[i] == *x {
            i += 1;
        }
    }
    i == small.len()
}
/// big == small plus exactly `extra` (as multisets) and the relative order
/// of the entries of `small` is preserved inside `big`.
///
/// `is_subseq` alone is not enough when equal entries exist: it is checked
/// together with the multiset equation, which pins the length.
fn plus(small: &L, big: &L, extra: &[(Key, EV)]) -> bool {
    if !is_subseq(small, big) {
        return false;
    }
    let mut m = ms(small);
    for e in extra {
        *m.entry(*e).or_insert(0) += 1;
    }
    m == ms(big)
}
fn filt(l: &L, k: Key) -> L {
    l.iter().cloned().filter(|x| x.0 != k).collect()
}
/// `t` is `s` with exactly one occurrence of `e` removed (and nothing else moved)
fn minus_one(s: &L, t: &L, e: (Key, EV)) -> bool {
    if s.len() != t.len() + 1 {
        return false;
    }
    let j = (0..t.len()).find(|&i| s[i] != t[i]).unwrap_or(t.len());
    s[j] == e && s[j + 1..] == t[j..]
}
#[allow(dead_code)]
fn remove_rank(l: &L, peer: Key, rank: usize) -> Option<(L, EV)> {
    let mut r = 0;
    for (i, x) in l.iter().enumerate() {
        if x.0 == peer {
            if r == rank {
                let mut l2 = l.clone();
                l2.remove(i);
                return Some((l2, x.1));
            }
            r += 1;
        }
    }
    None
}

/// C03 step relation, directed flavours.
pub fn d_step(s: &State, op: OpKind, u: usize, v: usize, e: EV, ret: &Ret, t: &State) -> Result<(), Fail> {
    let n = s.n();
    let same_except = |skip_out: &[usize], skip_in: &[usize]| -> bool {
        (0..n).all(|i| (skip_out.contains(&i) || s.out[i] == t.out[i]) && (skip_in.contains(&i) || s.inc[i] == t.inc[i]))
    };
    match op {
        OpKind::Connect | OpKind::TryConnect => {
            if op == OpKind::TryConnect {
                if s.out[u].iter().any(|x| x.0 as usize == v) {
                    if *ret != Ret::ErrExists {
                        return fail("try_connect.existing-edge-not-rejected", format!("ret={:?}", ret));
                    }
                    if s != t {
                        return fail("try_connect.failed-call-changed-state", "");
                    }
                    return Ok(());
                }
                if *ret != Ret::Ok {
                    return fail("try_connect.spurious-failure", format!("ret={:?}", ret));
                }
            } else if *ret != Ret::Unit {
                return fail("connect.return", format!("ret={:?}", ret));
            }
            let mut eo = s.out[u].clone();
            eo.push((v as Key, e));
            let mut ei = s.inc[v].clone();
            ei.push((u as Key, e));
            if t.out[u] != eo {
                return fail("connect.out-list", format!("expected {:?} got {:?}", eo, t.out[u]));
            }
            if t.inc[v] != ei {
                return fail("connect.in-list", format!("expected {:?} got {:?}", ei, t.inc[v]));
            }
            if !same_except(&[u], &[v]) {
                return fail("connect.unrelated-lists-changed", "");
            }
            Ok(())
        }
        OpKind::Disconnect => {
            let cnt = s.out[u].iter().filter(|x| x.0 as usize == v).count();
            if cnt == 0 {
                if *ret != Ret::ErrNotFound {
                    return fail("disconnect.missing-edge-not-rejected", format!("ret={:?}", ret));
                }
                if s != t {
                    return fail("disconnect.failed-call-changed-state", "");
                }
                return Ok(());
            }
            let Ret::Val(val) = ret else {
                return fail("disconnect.existing-edge-not-removed", format!("ret={:?}", ret));
            };
            if !s.out[u].iter().any(|x| x.0 as usize == v && x.1 == *val) {
                return fail("disconnect.returned-value-not-of-the-pair", format!("ret={:?}", ret));
            }
            // allowed successors: one u->v entry carrying the returned value is gone at the source and one at the
            // target, everything else is in place (linear: the lists may hold thousands of parallel edges)
            if minus_one(&s.out[u], &t.out[u], (v as Key, *val)) && minus_one(&s.inc[v], &t.inc[v], (u as Key, *val)) && same_except(&[u], &[v]) {
                return Ok(());
            }
            fail("disconnect.not-exactly-one-edge-removed", format!("before out={:?} in={:?} after out={:?} in={:?}", s.out[u], s.inc[v], t.out[u], t.inc[v]))
        }
        OpKind::Lookup => {
            if s != t {
                return fail("lookup.changed-state", "");
            }
            let has = s.out[u].iter().any(|x| x.0 as usize == v);
            if *ret != (if has { Ret::Ok } else { Ret::ErrNotFound }) {
                return fail("lookup.wrong-answer", format!("node {} lists {}: {} but the lookups answered {:?}", u, v, has, ret));
            }
            Ok(())
        }
        OpKind::Isolate => {
            if *ret != Ret::Unit {
                return fail("isolate.return", format!("ret={:?}", ret));
            }
            for w in 0..n {
                let (eo, ei) = if w == u { (vec![], vec![]) } else { (filt(&s.out[w], u as Key), filt(&s.inc[w], u as Key)) };
                if t.out[w] != eo || t.inc[w] != ei {
                    return fail("isolate.lists", format!("node {} expected out={:?} in={:?} got out={:?} in={:?}", w, eo, ei, t.out[w], t.inc[w]));
                }
            }
            Ok(())
        }
    }
}

/// C01 invariant: per ordered pair, out-values at the source equal
/// in-values at the target as sequences.
pub fn d_inv(s: &State) -> Result<(), Fail> {
    let n = s.n();
    for u in 0..n {
        for v in 0..n {
            let a: Vec<EV> = s.out[u].iter().filter(|x| x.0 as usize == v).map(|x| x.1).collect();
            let b: Vec<EV> = s.inc[v].iter().filter(|x| x.0 as usize == u).map(|x| x.1).collect();
            if a != b {
                let mut a2 = a.clone();
                let mut b2 = b.clone();
                a2.sort();
                b2.sort();
                return if a2 != b2 {
                    fail("mirror.multiplicity", format!("{}->{}: out {:?} vs in {:?}", u, v, a, b))
                } else {
                    fail("mirror.order", format!("{}->{}: out {:?} vs in {:?}", u, v, a, b))
                };
            }
        }
        for x in s.out[u].iter().chain(s.inc[u].iter()) {
            if x.0 as usize >= n {
                return fail("mirror.unknown-peer", format!("node {} lists peer {}", u, x.0));
            }
        }
    }
    Ok(())
}

/// C03 step relation, undirected flavours (`out` = incidence lists).
pub fn u_step(s: &State, op: OpKind, u: usize, v: usize, e: EV, ret: &Ret, t: &State) -> Result<(), Fail> {
    let n = s.n();
    let same_except = |skip: &[usize]| (0..n).all(|i| skip.contains(&i) || s.out[i] == t.out[i]);
    match op {
        OpKind::Connect | OpKind::TryConnect => {
            if op == OpKind::TryConnect {
                if s.out[u].iter().any(|x| x.0 as usize == v) {
                    if *ret != Ret::ErrExists {
                        return fail("try_connect.existing-edge-not-rejected", format!("ret={:?}", ret));
                    }
                    if s != t {
                        return fail("try_connect.failed-call-changed-state", "");
                    }
                    return Ok(());
                }
                if *ret != Ret::Ok {
                    return fail("try_connect.spurious-failure", format!("ret={:?}", ret));
                }
            } else if *ret != Ret::Unit {
                return fail("connect.return", format!("ret={:?}", ret));
            }
            if u == v {
                if !plus(&s.out[u], &t.out[u], &[(u as Key, e), (u as Key, e)]) {
                    return fail("connect.incidences", format!("self-loop: before {:?} after {:?}", s.out[u], t.out[u]));
                }
            } else if !plus(&s.out[u], &t.out[u], &[(v as Key, e)]) || !plus(&s.out[v], &t.out[v], &[(u as Key, e)]) {
                return fail("connect.incidences", format!("before {:?}/{:?} after {:?}/{:?}", s.out[u], s.out[v], t.out[u], t.out[v]));
            }
            if !same_except(&[u, v]) {
                return fail("connect.unrelated-lists-changed", "");
            }
            Ok(())
        }
        OpKind::Disconnect => {
            if !s.out[u].iter().any(|x| x.0 as usize == v) {
                if *ret != Ret::ErrNotFound {
                    return fail("disconnect.missing-edge-not-rejected", format!("ret={:?}", ret));
                }
                if s != t {
                    return fail("disconnect.failed-call-changed-state", "");
                }
                return Ok(());
            }
            let Ret::Val(val) = ret else {
                return fail("disconnect.existing-edge-not-removed", format!("ret={:?}", ret));
            };
            if !s.out[u].contains(&(v as Key, *val)) {
                return fail("disconnect.returned-value-not-of-the-pair", format!("ret={:?}", ret));
            }
            let ok = if u == v {
                plus(&t.out[u], &s.out[u], &[(u as Key, *val), (u as Key, *val)])
            } else {
                plus(&t.out[u], &s.out[u], &[(v as Key, *val)]) && plus(&t.out[v], &s.out[v], &[(u as Key, *val)])
            };
            if !ok {
                return fail("disconnect.not-exactly-one-edge-removed", format!("before {:?}/{:?} after {:?}/{:?}", s.out[u], s.out[v], t.out[u], t.out[v]));
            }
            if !same_except(&[u, v]) {
                return fail("disconnect.unrelated-lists-changed", "");
            }
            Ok(())
        }
        OpKind::Lookup => {
            if s != t {
                return fail("lookup.changed-state", "");
            }
            let has = s.out[u].iter().any(|x| x.0 as usize == v);
            if *ret != (if has { Ret::Ok } else { Ret::ErrNotFound }) {
                return fail("lookup.wrong-answer", format!("node {} lists {}: {} but the lookups answered {:?}", u, v, has, ret));
            }
            Ok(())
        }
        OpKind::Isolate => {
            if *ret != Ret::Unit {
                return fail("isolate.return", format!("ret={:?}", ret));
            }
            for w in 0..n {
                let ex = if w == u { vec![] } else { filt(&s.out[w], u as Key) };
                if t.out[w] != ex {
                    return fail("isolate.lists", format!("node {} expected {:?} got {:?}", w, ex, t.out[w]));
                }
            }
            Ok(())
        }
    }
}

/// C02 invariant: per unordered pair and value equal counts at both ends;
/// self-loops contribute an even number of incidences per value.
pub fn u_inv(s: &State) -> Result<(), Fail> {
    let n = s.n();
    for u in 0..n {
        for x in &s.out[u] {
            if x.0 as usize >= n {
                return fail("symmetry.unknown-peer", format!("node {} lists peer {}", u, x.0));
            }
        }
        for v in 0..n {
            if u == v {
                let mut m: BTreeMap<EV, usize> = BTreeMap::new();
                for x in s.out[u].iter().filter(|x| x.0 as usize == u) {
                    *m.entry(x.1).or_insert(0) += 1;
                }
                if m.values().any(|c| c % 2 != 0) {
                    return fail("symmetry.self-loop-odd", format!("node {} list {:?}", u, s.out[u]));
                }
                continue;
            }
            let mut a: Vec<EV> = s.out[u].iter().filter(|x| x.0 as usize == v).map(|x| x.1).collect();
            let mut b: Vec<EV> = s.out[v].iter().filter(|x| x.0 as usize == u).map(|x| x.1).collect();
            a.sort();
            b.sort();
            if a != b {
                return fail("symmetry.counts", format!("{}-{}: {:?} vs {:?}", u, v, a, b));
            }
        }
    }
    Ok(())
}

// ---------------------------------------------------------------------
// Graph cases and search oracles
// ---------------------------------------------------------------------

/// A generated graph: `edges` in insertion (connect) order.
#[derive(Clone, Debug, PartialEq, Eq, Hash, PartialOrd, Ord, Serialize, Deserialize)]
pub struct GCase {
    pub n: usize,
    pub prio: Vec<i32>,
    pub edges: Vec<Tri>,
}

/// Oriented view: `inc[s]` = (t, value) for every edge that a traversal
/// standing on `s` may follow.
#[derive(Clone, Debug)]
pub struct View {
    pub n: usize,
    pub inc: Vec<L>,
}

impl GCase {
    pub fn view_directed(&self, transposed: bool) -> View {
        let mut inc = vec![vec![]; self.n];
        for &(u, v, e) in &self.edges {
            if transposed {
                inc[v as usize].push((u, e));
            } else {
                inc[u as usize].push((v, e));
            }
        }
        View { n: self.n, inc }
    }
    pub fn view_undirected(&self) -> View {
        let mut inc = vec![vec![]; self.n];
        for &(u, v, e) in &self.edges {
            inc[u as usize].push((v, e));
            inc[v as usize].push((u, e));
        }
        View { n: self.n, inc }
    }
    pub fn view(&self, directed: bool, transposed: bool) -> View {
        if directed {
            self.view_directed(transposed)
        } else {
            self.view_undirected()
        }
    }
}

/// Filter = set of rejected oriented triples.
pub struct Acc<'a> {
    pub rejected: &'a BTreeSet<Tri>,
}
impl<'a> Acc<'a> {
    pub fn ok(&self, s: Key, t: Key, e: EV) -> bool {
        !self.rejected.contains(&(s, t, e))
    }
}

impl View {
    pub fn count(&self, s: Key, t: Key, e: EV) -> usize {
        if (s as usize) >= self.n {
            return 0;
        }
        self.inc[s as usize].iter().filter(|&&(tt, ee)| tt == t && ee == e).count()
    }
    pub fn has(&self, s: Key, t: Key, e: EV) -> bool {
        self.count(s, t, e) > 0
    }
    pub fn succ(&self, s: Key, acc: &Acc) -> Vec<Key> {
        self.inc[s as usize].iter().filter(|&&(t, e)| acc.ok(s, t, e)).map(|x| x.0).collect()
    }
    pub fn dist(&self, root: Key, acc: &Acc) -> Vec<Option<usize>> {
        let mut d = vec![None; self.n];
        d[root as usize] = Some(0);
        let mut q = VecDeque::from([root]);
        while let Some(x) = q.pop_front() {
            let dx = d[x as usize].unwrap();
            for y in self.succ(x, acc) {
                if d[y as usize].is_none() {
                    d[y as usize] = Some(dx + 1);
                    q.push_back(y);
                }
            }
        }
        d
    }
    pub fn reach(&self, root: Key, acc: &Acc) -> BTreeSet<Key> {
        self.dist(root, acc).iter().enumerate().filter(|x| x.1.is_some()).map(|x| x.0 as Key).collect()
    }
    /// length of a shortest closed walk root -> root with >= 1 accepted edge
    pub fn cycle_len(&self, root: Key, acc: &Acc) -> Option<usize> {
        let d = self.dist(root, acc);
        let mut best: Option<usize> = None;
        for x in 0..self.n {
            if let Some(dx) = d[x] {
                if self.succ(x as Key, acc).contains(&root) {
                    best = Some(best.map_or(dx + 1, |b| b.min(dx + 1)));
                }
            }
        }
        best
    }
    pub fn reach_unvisited(&self, c: Key, visited: &BTreeSet<Key>, acc: &Acc) -> BTreeSet<Key> {
        let mut seen = BTreeSet::from([c]);
        let mut st = vec![c];
        while let Some(x) = st.pop() {
            for y in self.succ(x, acc) {
                if !visited.contains(&y) && seen.insert(y) {
                    st.push(y);
                }
            }
        }
        seen
    }
    /// all edges leaving nodes reachable from root (reachability through
    /// accepted edges), oriented as the traversal sees them
    pub fn edges_from_reachable(&self, root: Key, acc: &Acc) -> Vec<Tri> {
        let mut out = vec![];
        for s in self.reach(root, acc) {
            for &(t, e) in &self.inc[s as usize] {
                out.push((s, t, e));
            }
        }
        out
    }
}

pub fn multiset<T: Ord + Clone>(v: &[T]) -> BTreeMap<T, usize> {
    let mut m = BTreeMap::new();
    for x in v {
        *m.entry(x.clone()).or_insert(0) += 1;
    }
    m
}

/// A walk: starts at `root`, ends at `end`, edges join, every edge exists
/// in the view and is accepted.
pub fn check_walk(view: &View, acc: &Acc, root: Key, end: Key, p: &[Tri]) -> Result<(), Fail> {
    if p.is_empty() {
        return fail("path.empty", "");
    }
    if p[0].0 != root {
        return fail("path.start", format!("starts at {} not {}", p[0].0, root));
    }
    if p[p.len() - 1].1 != end {
        return fail("path.end", format!("ends at {} not {}", p[p.len() - 1].1, end));
    }
    for w in p.windows(2) {
        if w[0].1 != w[1].0 {
            return fail("path.not-joined", format!("{:?} then {:?}", w[0], w[1]));
        }
    }
    for &(s, t, e) in p {
        if !view.has(s, t, e) {
            return fail("path.edge-does-not-exist", format!("{:?}", (s, t, e)));
        }
        if !acc.ok(s, t, e) {
            return fail("path.rejected-edge", format!("{:?}", (s, t, e)));
        }
    }
    Ok(())
}

/// Is `p` the discovery order of some DFS from `root` over accepted edges?
pub fn valid_pre(view: &View, acc: &Acc, root: Key, p: &[Key]) -> Result<(), Fail> {
    if p.is_empty() || p[0] != root {
        return fail("preorder.root-not-first", format!("{:?}", p));
    }
    let set: BTreeSet<Key> = p.iter().cloned().collect();
    if set.len() != p.len() {
        return fail("order.node-repeated", format!("{:?}", p));
    }
    let mut visited = BTreeSet::from([root]);
    let mut stack = vec![root];
    let mut i = 1;
    while let Some(&s) = stack.last() {
        let u: Vec<Key> = view.succ(s, acc).into_iter().filter(|c| !visited.contains(c)).collect();
        if !u.is_empty() {
            if i >= p.len() || !u.contains(&p[i]) {
                return fail("preorder.not-a-dfs-discovery-order", format!("at position {} a DFS standing on {} must discover one of {:?}; order {:?}", i, s, u, p));
            }
            visited.insert(p[i]);
            stack.push(p[i]);
            i += 1;
        } else {
            stack.pop();
        }
    }
    if i != p.len() {
        return fail("preorder.not-a-dfs-discovery-order", format!("extra nodes after position {} in {:?}", i, p));
    }
    Ok(())
}

pub enum PostVerdict {
    Valid,
    Invalid,
    Undecided,
}

/// Is `q` the finishing order of some DFS from `root`? Backtracking over the
/// child choice; by the white-path theorem the descendants of a child `c`
/// discovered from `s` are exactly the unvisited nodes reachable from `c`,
/// and they must form the next block of `q` with `c` last.
pub fn valid_post(view: &View, acc: &Acc, root: Key, q: &[Key]) -> PostVerdict {
    type K<'a> = &'a mut dyn FnMut(usize, &BTreeSet<Key>, &mut usize) -> bool;
    fn sim(view: &View, acc: &Acc, s: Key, q: &[Key], i: usize, visited: &BTreeSet<Key>, budget: &mut usize, k: K) -> bool {
        if *budget == 0 {
            return false;
        }
        *budget -= 1;
        let u: BTreeSet<Key> = view.succ(s, acc).into_iter().filter(|c| !visited.contains(c)).collect();
        if u.is_empty() {
            return q.get(i) == Some(&s) && k(i + 1, visited, budget);
        }
        for &c in &u {
            let r = view.reach_unvisited(c, visited, acc);
            if i + r.len() > q.len() {
                continue;
            }
            let blk = &q[i..i + r.len()];
            if blk[blk.len() - 1] != c || blk.iter().cloned().collect::<BTreeSet<_>>() != r {
                continue;
            }
            let mut v2 = visited.clone();
            v2.insert(c);
            let end = i + r.len();
            let ok = sim(view, acc, c, q, i, &v2, budget, &mut |i2, v3, b| {
                if i2 != end {
                    return false;
                }
                let mut v4 = v3.clone();
                v4.extend(r.iter().cloned());
                sim(view, acc, s, q, i2, &v4, b, k)
            });
            if ok {
                return true;
            }
        }
        false
    }
    // the candidate loop costs O(degree * (n + m)) per node: exact decision only up to 400 nodes
    // (beyond that the necessary conditions checked by the caller remain)
    if view.n > 400 {
        return PostVerdict::Undecided;
    }
    let mut budget = 200_000usize;
    let visited = BTreeSet::from([root]);
    let n = q.len();
    let ok = sim(view, acc, root, q, 0, &visited, &mut budget, &mut |i2, _, _| i2 == n);
    if ok {
        PostVerdict::Valid
    } else if budget == 0 {
        PostVerdict::Undecided
    } else {
        PostVerdict::Invalid
    }
}

/// Brute force: every finishing order and every discovery order that some
/// DFS from root can produce (used to validate the deciders above).
pub fn all_dfs_orders(view: &View, acc: &Acc, root: Key) -> (BTreeSet<Vec<Key>>, BTreeSet<Vec<Key>>) {
    // state machine with explicit stack; branch over the choice of the next
    // unvisited successor of the stack top.
    fn go(view: &View, acc: &Acc, stack: &mut Vec<Key>, visited: &mut BTreeSet<Key>, pre: &mut Vec<Key>, post: &mut Vec<Key>, pres: &mut BTreeSet<Vec<Key>>, posts: &mut BTreeSet<Vec<Key>>) {
        let Some(&s) = stack.last() else {
            pres.insert(pre.clone());
            posts.insert(post.clone());
            return;
        };
        let u: BTreeSet<Key> = view.succ(s, acc).into_iter().filter(|c| !visited.contains(c)).collect();
        if u.is_empty() {
            stack.pop();
            post.push(s);
            go(view, acc, stack, visited, pre, post, pres, posts);
            post.pop();
            stack.push(s);
        } else {
            for c in u {
                visited.insert(c);
                stack.push(c);
                pre.push(c);
                go(view, acc, stack, visited, pre, post, pres, posts);
                pre.pop();
                stack.pop();
                visited.remove(&c);
            }
        }
    }
    let mut pres = BTreeSet::new();
    let mut posts = BTreeSet::new();
    go(view, acc, &mut vec![root], &mut BTreeSet::from([root]), &mut vec![root], &mut vec![], &mut pres, &mut posts);
    (pres, posts)
}

/// Strongly connected components by pairwise reachability (O(n^3)).
pub fn scc_model(n: usize, edges: &[Tri]) -> BTreeSet<BTreeSet<Key>> {
    let mut r = vec![vec![false; n]; n];
    for (i, row) in r.iter_mut().enumerate() {
        row[i] = true;
    }
    for &(u, v, _) in edges {
        r[u as usize][v as usize] = true;
    }
    for k in 0..n {
        for i in 0..n {
            for j in 0..n {
                if r[i][k] && r[k][j] {
                    r[i][j] = true;
                }
            }
        }
    }
    let mut out = BTreeSet::new();
    for i in 0..n {
        out.insert((0..n).filter(|&j| r[i][j] && r[j][i]).map(|j| j as Key).collect());
    }
    out
}

/// Independent SCC (Tarjan) used to cross-check `scc_model`.
pub fn scc_tarjan(n: usize, edges: &[Tri]) -> BTreeSet<BTreeSet<Key>> {
    let mut adj = vec![vec![]; n];
    for &(u, v, _) in edges {
        adj[u as usize].push(v as usize);
    }
    struct T<'a> {
        adj: &'a Vec<Vec<usize>>,
        idx: Vec<Option<usize>>,
        low: Vec<usize>,
        on: Vec<bool>,
        st: Vec<usize>,
        next: usize,
        out: BTreeSet<BTreeSet<Key>>,
    }
    fn sc(t: &mut T, v: usize) {
        t.idx[v] = Some(t.next);
        t.low[v] = t.next;
        t.next += 1;
        t.st.push(v);
        t.on[v] = true;
        for i in 0..t.adj[v].len() {
            let w = t.adj[v][i];
            if t.idx[w].is_none() {
                sc(t, w);
                t.low[v] = t.low[v].min(t.low[w]);
            } else if t.on[w] {
                t.low[v] = t.low[v].min(t.idx[w].unwrap());
            }
        }
        if t.low[v] == t.idx[v].unwrap() {
            let mut comp = BTreeSet::new();
            loop {
                let w = t.st.pop().unwrap();
                t.on[w] = false;
                comp.insert(w as Key);
                if w == v {
                    break;
                }
            }
            t.out.insert(comp);
        }
    }
    let mut t = T { adj: &adj, idx: vec![None; n], low: vec![0; n], on: vec![false; n], st: vec![], next: 0, out: BTreeSet::new() };
    for v in 0..n {
        if t.idx[v].is_none() {
            sc(&mut t, v);
        }
    }
    t.out
}
