//! proptest `TestRunner` driven from a binary: seeded from VERIF_SEED, no
//! persistence, shrinking enabled. The closure is re-run during shrinking;
//! `counting` is true only until the first failure so that evidence counts
//! generated cases, not shrink attempts.
use proptest::strategy::Strategy;
use proptest::test_runner::{Config, RngAlgorithm, TestCaseError, TestError, TestRng, TestRunner};
use std::cell::Cell;

pub fn seed_bytes(seed: u64, stream: u64) -> [u8; 32] {
    let mut b = [0u8; 32];
    b[..8].copy_from_slice(&seed.to_le_bytes());
    b[8..16].copy_from_slice(&stream.to_le_bytes());
    b[16..24].copy_from_slice(&0x9E37_79B9_7F4A_7C15u64.to_le_bytes());
    b
}

/// Runs `cases` generated cases; returns the shrunk failing value, if any.
/// `test(value, counting)` returns true when the property held.
pub fn run<S: Strategy>(seed: u64, stream: u64, cases: u32, strat: &S, test: impl Fn(&S::Value, bool) -> bool) -> Option<S::Value>
where
    S::Value: Clone + std::fmt::Debug,
{
    run_with(seed, stream, cases, 20_000, strat, test)
}

/// like `run` with an explicit bound on shrink attempts (expensive cases)
pub fn run_with<S: Strategy>(seed: u64, stream: u64, cases: u32, max_shrink_iters: u32, strat: &S, test: impl Fn(&S::Value, bool) -> bool) -> Option<S::Value>
where
    S::Value: Clone + std::fmt::Debug,
{
    let config = Config { cases, failure_persistence: None, max_shrink_iters, max_global_rejects: 0, ..Config::default() };
    let rng = TestRng::from_seed(RngAlgorithm::ChaCha, &seed_bytes(seed, stream));
    let mut runner = TestRunner::new_with_rng(config, rng);
    let failed = Cell::new(false);
    let res = runner.run(strat, |v| {
        let ok = test(&v, !failed.get());
        if ok {
            Ok(())
        } else {
            failed.set(true);
            Err(TestCaseError::fail("property violated"))
        }
    });
    match res {
        Ok(()) => None,
        Err(TestError::Fail(_, v)) => Some(v),
        Err(TestError::Abort(r)) => panic!("proptest aborted: {}", r),
    }
}

/// monotone index mapping so that shrinking the raw value shrinks the index
pub fn idx(raw: u16, n: usize) -> usize {
    ((raw as usize) * n) >> 16
}
