//! C01 / C02 / C03: histories of edge operations.
//!
//! One generator and one interpreter; the property selects the oracle:
//!  * C01 (directed)   mirror invariant + redundant observations after every step
//!  * C02 (undirected) symmetry invariant + redundant observations after every step
//!  * C03 (all four)   step relation, no panic / self-deadlock, handle provenance
use crate::ctx::*;
use crate::flavour::*;
use crate::hook;
use crate::model::*;
use crate::pt;
use crate::types::*;
use proptest::prelude::*;
use serde::{Deserialize, Serialize};
use serde_json::{json, Value};
use std::collections::{BTreeSet, HashSet, VecDeque};
use std::panic::{catch_unwind, AssertUnwindSafe};

#[derive(Clone, Copy, Debug, PartialEq, Eq, Hash, PartialOrd, Ord, Serialize, Deserialize)]
pub enum Prov {
    Orig,
    Clone,
    GraphGet,
    GraphIndex,
    EdgeEndpoint,
    FindResult,
    SearchResult,
    PathNode,
}
pub const PROVS: [Prov; 8] = [Prov::Orig, Prov::Clone, Prov::GraphGet, Prov::GraphIndex, Prov::EdgeEndpoint, Prov::FindResult, Prov::SearchResult, Prov::PathNode];

#[derive(Clone, Copy, Debug, PartialEq, Eq, Hash, PartialOrd, Ord, Serialize, Deserialize)]
pub struct HOp {
    pub kind: OpKind,
    pub u: usize,
    pub v: usize,
    pub e: EV,
    pub pu: Prov,
    pub pv: Prov,
    /// when set, the operands are replaced at run time by the r-th pair of
    /// nodes that currently has an edge (keeps removals / failing
    /// try_connects / parallel connects frequent); resolved before replay
    #[serde(default, skip_serializing_if = "Option::is_none")]
    pub guide: Option<u16>,
}
#[derive(Clone, Debug, PartialEq, Eq, Hash, Serialize, Deserialize)]
pub struct HistCase {
    pub n: usize,
    pub ops: Vec<HOp>,
    /// bursts of plain connects (u, v, value, count), u != v, applied before `ops`; the state after
    /// them is compared with the model once (long adjacency lists without a per-connect observation)
    #[serde(default, skip_serializing_if = "Vec::is_empty")]
    pub prelude: Vec<(usize, usize, EV, u32)>,
}

#[derive(Clone, Copy, PartialEq, Eq, Debug)]
pub enum Which {
    C01,
    C02,
    C03,
}
impl Which {
    pub fn id(self) -> &'static str {
        match self {
            Which::C01 => "C01",
            Which::C02 => "C02",
            Which::C03 => "C03",
        }
    }
    pub fn applies<F: Flavour>(self) -> bool {
        match self {
            Which::C01 => F::DIRECTED,
            Which::C02 => !F::DIRECTED,
            Which::C03 => true,
        }
    }
}

pub fn observe<F: Flavour>(nodes: &[F::Node]) -> Result<State, String> {
    catch_unwind(AssertUnwindSafe(|| State { out: nodes.iter().map(|x| F::out_list(x)).collect(), inc: nodes.iter().map(|x| F::in_list(x)).collect() })).map_err(panic_msg)
}

pub fn apply_op<F: Flavour>(kind: OpKind, hu: &F::Node, hv: &F::Node, vkey: Key, e: EV) -> Ret {
    match catch_unwind(AssertUnwindSafe(|| match kind {
        OpKind::Connect => {
            F::connect(hu, hv, e);
            Ret::Unit
        }
        OpKind::TryConnect => match F::try_connect(hu, hv, e) {
            Ok(()) => Ret::Ok,
            Err(ErrKind::EdgeAlreadyExists) => Ret::ErrExists,
            Err(ErrKind::EdgeNotFound) => Ret::ErrNotFound,
        },
        OpKind::Disconnect => match F::disconnect(hu, vkey) {
            Ok(v) => Ret::Val(v),
            Err(ErrKind::EdgeNotFound) => Ret::ErrNotFound,
            Err(ErrKind::EdgeAlreadyExists) => Ret::ErrExists,
        },
        OpKind::Isolate => {
            F::isolate(hu);
            Ret::Unit
        }
        OpKind::Lookup => {
            // all key lookups must agree with each other; Ok = found, ErrNotFound = not found
            let c = F::is_connected(hu, vkey);
            let f = F::find_out(hu, vkey);
            let _ = (F::find_in(hu, vkey), F::out_degree(hu), F::in_degree(hv));
            if c != f.is_some() || f.map_or(false, |h| F::key(&h) != vkey) {
                Ret::Panic("is_connected and find_* disagree".into())
            } else if c {
                Ret::Ok
            } else {
                Ret::ErrNotFound
            }
        }
    })) {
        Ok(r) => r,
        Err(e) => Ret::Panic(panic_msg(e)),
    }
}

/// Obtain a handle to node `w` through the requested provenance, using the
/// current observed state to find a route; falls back to a clone.
fn handle<F: Flavour>(nodes: &[F::Node], g: &F::Graph, s: &State, w: usize, p: Prov) -> (F::Node, Prov) {
    let k = w as Key;
    let fallback = || (nodes[w].clone(), Prov::Clone);
    let r = catch_unwind(AssertUnwindSafe(|| -> Option<F::Node> {
        match p {
            Prov::Orig => None,
            Prov::Clone => Some(nodes[w].clone()),
            Prov::GraphGet => F::g_get(g, k),
            Prov::GraphIndex => Some(F::g_index_ref(g, k)),
            Prov::EdgeEndpoint => {
                // some node x that lists w: take w out of the edge x yields
                for x in 0..nodes.len() {
                    if s.out[x].iter().any(|e| e.0 == k) {
                        for e in F::edges(&nodes[x], IterKind::Out) {
                            if F::key(F::e_dst(&e)) == k {
                                return Some(F::e_dst(&e).clone());
                            }
                        }
                    }
                    if F::DIRECTED && s.inc[x].iter().any(|e| e.0 == k) {
                        for e in F::edges(&nodes[x], IterKind::In) {
                            if F::key(F::e_src(&e)) == k {
                                return Some(F::e_src(&e).clone());
                            }
                        }
                    }
                }
                None
            }
            Prov::FindResult => {
                for x in 0..nodes.len() {
                    if s.out[x].iter().any(|e| e.0 == k) {
                        return F::find_out(&nodes[x], k);
                    }
                    if F::DIRECTED && s.inc[x].iter().any(|e| e.0 == k) {
                        return F::find_in(&nodes[x], k);
                    }
                }
                None
            }
            Prov::SearchResult | Prov::PathNode => {
                // a predecessor x != w: search from it
                for x in 0..nodes.len() {
                    if x != w && s.out[x].iter().any(|e| e.0 == k) {
                        let algo = if (x + w) % 2 == 0 { Algo::Bfs } else { Algo::Dfs };
                        if p == Prov::SearchResult {
                            if let SearchRes::Node(r) = F::search(&nodes[x], &SearchCfg { algo, transposed: false, term: Term::Search, target: Some(k) }, Meth::None) {
                                return r;
                            }
                        } else if let SearchRes::Path(Some(pa)) = F::search(&nodes[x], &SearchCfg { algo, transposed: false, term: Term::Path, target: Some(k) }, Meth::None) {
                            return pa.last_node();
                        }
                    }
                }
                None
            }
        }
    }));
    match r {
        Ok(Some(h)) => (h, p),
        Ok(None) if p == Prov::Orig => (nodes[w].clone(), Prov::Orig),
        _ => fallback(),
    }
}

pub struct StepFail {
    pub step: usize,
    pub fail: Fail,
    pub pre: State,
    /// the operations as executed (guided operands resolved), up to and including the failing one
    pub resolved: Vec<HOp>,
}

fn resolve(op: &HOp, s: &State) -> HOp {
    let mut r = *op;
    r.guide = None;
    if let Some(g) = op.guide {
        if op.kind != OpKind::Isolate {
            let mut pairs = vec![];
            for a in 0..s.n() {
                let mut seen = BTreeSet::new();
                for x in &s.out[a] {
                    if seen.insert(x.0) {
                        pairs.push((a, x.0 as usize));
                    }
                }
            }
            if !pairs.is_empty() {
                let (a, b) = pairs[pt::idx(g, pairs.len())];
                r.u = a;
                r.v = b;
            }
        }
    }
    r
}

pub fn redundant<F: Flavour>(nodes: &[F::Node], t: &State) -> Result<(), Fail> {
    let n = nodes.len();
    let r = catch_unwind(AssertUnwindSafe(|| -> Result<(), Fail> {
        for (k, nd) in nodes.iter().enumerate() {
            if F::DIRECTED {
                if F::out_degree(nd) != t.out[k].len() || F::in_degree(nd) != t.inc[k].len() {
                    return fail("observe.degree", format!("node {} out_degree={} in_degree={} lists out={:?} in={:?}", k, F::out_degree(nd), F::in_degree(nd), t.out[k], t.inc[k]));
                }
                if F::is_root(nd) != t.inc[k].is_empty() || F::is_leaf(nd) != t.out[k].is_empty() || F::is_orphan(nd) != (t.inc[k].is_empty() && t.out[k].is_empty()) {
                    return fail("observe.predicate", format!("node {} root={} leaf={} orphan={} lists out={:?} in={:?}", k, F::is_root(nd), F::is_leaf(nd), F::is_orphan(nd), t.out[k], t.inc[k]));
                }
            } else {
                if F::out_degree(nd) != t.out[k].len() {
                    return fail("observe.degree", format!("node {} degree={} list={:?}", k, F::out_degree(nd), t.out[k]));
                }
                if F::is_orphan(nd) != t.out[k].is_empty() {
                    return fail("observe.predicate", format!("node {} orphan={} list={:?}", k, F::is_orphan(nd), t.out[k]));
                }
            }
            for w in 0..n {
                let wk = w as Key;
                let has_out = t.out[k].iter().any(|x| x.0 == wk);
                if F::is_connected(nd, wk) != has_out {
                    return fail("observe.is_connected", format!("node {} is_connected({})={} list={:?}", k, w, !has_out, t.out[k]));
                }
                let fo = F::find_out(nd, wk);
                if fo.is_some() != has_out {
                    return fail("observe.find", format!("node {} find({}) is_some={} list={:?}", k, w, fo.is_some(), t.out[k]));
                }
                if let Some(h) = fo {
                    if F::key(&h) != wk || F::addr(&h) != F::addr(&nodes[w]) {
                        return fail("observe.find-handle", format!("node {} find({}) returned key {} / a different allocation", k, w, F::key(&h)));
                    }
                }
                if F::DIRECTED {
                    let has_in = t.inc[k].iter().any(|x| x.0 == wk);
                    let fi = F::find_in(nd, wk);
                    if fi.is_some() != has_in {
                        return fail("observe.find", format!("node {} find_inbound({}) is_some={} list={:?}", k, w, fi.is_some(), t.inc[k]));
                    }
                    if let Some(h) = fi {
                        if F::key(&h) != wk || F::addr(&h) != F::addr(&nodes[w]) {
                            return fail("observe.find-handle", format!("node {} find_inbound({}) returned key {} / a different allocation", k, w, F::key(&h)));
                        }
                    }
                }
            }
            // yielded edges carry the iterated node and the peers' own allocations
            for e in F::edges(nd, IterKind::Out) {
                let (s, d, _) = F::tri(&e);
                if s as usize != k || F::addr(F::e_src(&e)) != F::addr(nd) || (d as usize) < n && F::addr(F::e_dst(&e)) != F::addr(&nodes[d as usize]) {
                    return fail("observe.edge-endpoints", format!("node {} yielded edge {:?}", k, F::tri(&e)));
                }
            }
            if F::DIRECTED {
                for e in F::edges(nd, IterKind::In) {
                    let (s, d, _) = F::tri(&e);
                    if d as usize != k || F::addr(F::e_dst(&e)) != F::addr(nd) || (s as usize) < n && F::addr(F::e_src(&e)) != F::addr(&nodes[s as usize]) {
                        return fail("observe.edge-endpoints", format!("node {} yielded in-edge {:?}", k, F::tri(&e)));
                    }
                }
            }
            let via_into: Vec<(Key, EV)> = F::edges(nd, IterKind::IntoIter).iter().map(|e| (F::key(F::e_dst(e)), F::e_val(e))).collect();
            if via_into != t.out[k] {
                return fail("observe.into-iter", format!("node {} `for e in &node` gives {:?}, iterator gives {:?}", k, via_into, t.out[k]));
            }
        }
        Ok(())
    }));
    match r {
        Ok(x) => x,
        Err(p) => fail("observe.panic", panic_msg(p)),
    }
}

/// Runs one history on flavour F. Returns the first failing step.
pub fn run_hist<F: Flavour>(case: &HistCase, which: Which, st: &mut Stats, counting: bool) -> Option<StepFail> {
    if F::SYNC {
        hook::install_self_deadlock_detector();
    }
    let n = case.n;
    let nodes: Vec<F::Node> = (0..n).map(|i| F::new_node(i as Key, NVal::plain(i as i32))).collect();
    let mut g = F::g_new();
    for nd in &nodes {
        F::g_insert(&mut g, nd.clone());
    }
    let mut s = match observe::<F>(&nodes) {
        Ok(s) => s,
        Err(p) => return Some(StepFail { step: 0, fail: Fail { clause: "observe.panic", detail: p }, pre: State::empty(n), resolved: vec![] }),
    };
    if !case.prelude.is_empty() {
        let mut m = State::empty(n);
        for &(u, v, e, count) in &case.prelude {
            if u == v || u >= n || v >= n {
                continue;
            }
            for _ in 0..count {
                if let Ret::Panic(p) = apply_op::<F>(OpKind::Connect, &nodes[u], &nodes[v], v as Key, e) {
                    return Some(StepFail { step: 0, fail: Fail { clause: "prelude.panic", detail: p }, pre: State::empty(n), resolved: vec![] });
                }
                m.out[u].push((v as Key, e));
                if F::DIRECTED {
                    m.inc[v].push((u as Key, e));
                } else {
                    m.out[v].push((u as Key, e));
                }
            }
        }
        s = match observe::<F>(&nodes) {
            Ok(s) => s,
            Err(p) => return Some(StepFail { step: 0, fail: Fail { clause: "observe.panic", detail: p }, pre: State::empty(n), resolved: vec![] }),
        };
        if s != m {
            let d = (0..n).map(|k| format!("node {}: out {} (model {}) in {} (model {})", k, s.out[k].len(), m.out[k].len(), s.inc[k].len(), m.inc[k].len())).collect::<Vec<_>>().join("; ");
            return Some(StepFail { step: 0, fail: Fail { clause: "prelude.state-differs-from-model", detail: d }, pre: State::empty(n), resolved: vec![] });
        }
        if counting {
            st.class("prelude.long-adjacency-list");
        }
    }
    let mut resolved: Vec<HOp> = Vec::with_capacity(case.ops.len());
    for (i, op) in case.ops.iter().enumerate() {
        let op = &resolve(op, &s);
        resolved.push(*op);
        if counting && case.ops[i].guide.is_some() {
            st.class("step.guided-operands");
        }
        let (hu, pu) = handle::<F>(&nodes, &g, &s, op.u, op.pu);
        let (hv, pv) = handle::<F>(&nodes, &g, &s, op.v, op.pv);
        if counting {
            st.class(&format!("prov.{:?}", pu));
            if op.kind != OpKind::Isolate {
                st.class(&format!("prov.{:?}", pv));
            }
            if pu != op.pu || pv != op.pv {
                st.class("prov.fallback-to-clone");
            }
        }
        if which == Which::C03 && (F::addr(&hu) != F::addr(&nodes[op.u]) || F::addr(&hv) != F::addr(&nodes[op.v]) || F::key(&hu) as usize != op.u) {
            return Some(StepFail { step: i, fail: Fail { clause: "handle.different-allocation", detail: format!("provenance {:?}/{:?}", pu, pv) }, pre: s, resolved });
        }
        let ret = apply_op::<F>(op.kind, &hu, &hv, op.v as Key, op.e);
        let t = match observe::<F>(&nodes) {
            Ok(t) => t,
            Err(p) => {
                let clause = if let Ret::Panic(_) = ret { "op.panic-and-state-unreadable" } else { "observe.panic" };
                return Some(StepFail { step: i, fail: Fail { clause, detail: format!("ret={:?} observe: {}", ret, p) }, pre: s, resolved });
            }
        };
        if counting {
            st.class(match (&op.kind, &ret) {
                (OpKind::Disconnect, Ret::Val(_)) => "step.disconnect-ok",
                (OpKind::Disconnect, _) => "step.disconnect-fail",
                (OpKind::TryConnect, Ret::Ok) => "step.try_connect-ok",
                (OpKind::TryConnect, _) => "step.try_connect-fail",
                (OpKind::Connect, _) => "step.connect",
                (OpKind::Isolate, _) => "step.isolate",
                (OpKind::Lookup, Ret::Ok) => "step.lookup-hit",
                (OpKind::Lookup, _) => "step.lookup-miss",
            });
            if op.u == op.v && op.kind != OpKind::Isolate {
                st.class("step.self-loop-operands");
            }
        }
        let res: Result<(), Fail> = match which {
            Which::C03 => {
                if let Ret::Panic(p) = &ret {
                    if p.starts_with(hook::SELF_DEADLOCK) {
                        fail("op.self-deadlock", p.clone())
                    } else {
                        fail("op.panic", p.clone())
                    }
                } else if F::DIRECTED {
                    d_step(&s, op.kind, op.u, op.v, op.e, &ret, &t)
                } else {
                    u_step(&s, op.kind, op.u, op.v, op.e, &ret, &t)
                }
            }
            Which::C01 => d_inv(&t).and_then(|_| redundant::<F>(&nodes, &t)),
            Which::C02 => u_inv(&t).and_then(|_| redundant::<F>(&nodes, &t)),
        };
        if let Err(f) = res {
            return Some(StepFail { step: i, fail: f, pre: s, resolved });
        }
        if let Ret::Panic(_) = ret {
            // C01/C02: the invariant survived a panicking call; the panic itself is C03's business.
            return None;
        }
        s = t;
    }
    // once per history: the edge iterators of every node through the provided Iterator methods (nth, skip, step_by, ...)
    if which != Which::C03 {
        let r = catch_unwind(AssertUnwindSafe(|| nodes.iter().enumerate().filter(|(k, _)| s.out[*k].len() + s.inc[*k].len() <= 64).find_map(|(k, nd)| F::iter_adapters_check(nd).map(|m| format!("node {}: {}", k, m)))));
        let msg = match r {
            Ok(m) => m,
            Err(p) => Some(format!("panic: {}", panic_msg(p))),
        };
        if let Some(m) = msg {
            return Some(StepFail { step: case.ops.len().saturating_sub(1), fail: Fail { clause: "observe.iterator-adapters", detail: m }, pre: s, resolved });
        }
    }
    None
}

/// canonical signature of a failing step: flavour | call with operand
/// aliasing | edges among the operands in the pre-state | clause
pub fn signature(flavour: &str, op: &HOp, pre: &State, directed: bool, clause: &str) -> String {
    let alias = op.u == op.v;
    let call = match op.kind {
        OpKind::Isolate => "isolate(n0)".to_string(),
        k => format!("{}({})", format!("{:?}", k).to_lowercase().replace("tryconnect", "try_connect"), if alias { "n0,n0" } else { "n0,n1" }),
    };
    let cnt = |a: usize, b: usize| pre.out[a].iter().filter(|x| x.0 as usize == b).count();
    let distinct = |a: usize, b: usize| pre.out[a].iter().filter(|x| x.0 as usize == b).map(|x| x.1).collect::<BTreeSet<_>>().len();
    let cap = |c: usize| if c >= 2 { "2+".to_string() } else { c.to_string() };
    let mut parts = vec![];
    let (u, v) = (op.u, op.v);
    let arrow = if directed { "->" } else { "--" };
    let mut pairs = vec![(u, u, "n0", "n0")];
    if !alias && op.kind != OpKind::Isolate {
        pairs.push((u, v, "n0", "n1"));
        if directed {
            pairs.push((v, u, "n1", "n0"));
        }
        pairs.push((v, v, "n1", "n1"));
    }
    for (a, b, na, nb) in pairs {
        let c = cnt(a, b);
        if c > 0 {
            parts.push(format!("{}{}{}:{}{}", na, arrow, nb, cap(c), if distinct(a, b) > 1 { "(values differ)" } else { "" }));
        }
    }
    let others = pre.out[u].iter().any(|x| x.0 as usize != u && (alias || x.0 as usize != v)) || (directed && pre.inc[u].iter().any(|x| x.0 as usize != u && (alias || x.0 as usize != v)));
    if others {
        parts.push("n0 has other edges".into());
    }
    format!("{} | {} | pre: {{{}}} | {}", flavour, call, parts.join(", "), clause)
}

fn finding<F: Flavour>(which: Which, case: &HistCase, sf: &StepFail) -> Finding {
    let c = HistCase { n: case.n, ops: sf.resolved.clone(), prelude: case.prelude.clone() };
    let dummy = HOp { kind: OpKind::Connect, u: 0, v: 0, e: 0, pu: Prov::Orig, pv: Prov::Orig, guide: None };
    let op = c.ops.get(sf.step).unwrap_or(&dummy);
    Finding {
        property: which.id().into(),
        flavour: F::NAME.into(),
        clause: sf.fail.clause.into(),
        signature: signature(F::NAME, op, &sf.pre, F::DIRECTED, sf.fail.clause),
        case: json!({"kind": "history", "flavour": F::NAME, "n": c.n, "prelude": c.prelude, "ops": c.ops, "failing_step": sf.step, "pre_state": sf.pre}),
        detail: format!("step {} {:?}: {}", sf.step, op, sf.fail.detail),
    }
}

/// run on every applicable flavour; returns true when all held
pub fn run_all(case: &HistCase, which: Which, st: &mut Stats, counting: bool, only: Option<&str>) -> bool {
    let mut ok = true;
    macro_rules! go {
        ($F:ty) => {
            if which.applies::<$F>() && only.map_or(true, |o| o == <$F>::NAME) {
                if counting {
                    st.eval();
                    st.class(&format!("flavour.{}", <$F>::NAME));
                }
                if let Some(sf) = run_hist::<$F>(case, which, st, counting) {
                    ok = false;
                    st.report(finding::<$F>(which, case, &sf));
                }
            }
        };
    }
    go!(Di);
    go!(SDi);
    go!(Un);
    go!(SUn);
    ok
}

fn nontrivial(case: &HistCase, which: Which) -> bool {
    // decided on the model-free shape of the history: cheap and conservative
    let has_removal = case.ops.iter().any(|o| matches!(o.kind, OpKind::Disconnect | OpKind::Isolate));
    let has_loop = case.ops.iter().any(|o| o.u == o.v && matches!(o.kind, OpKind::Connect | OpKind::TryConnect));
    let mut seen = HashSet::new();
    let has_parallel = case.ops.iter().filter(|o| o.kind == OpKind::Connect).any(|o| !seen.insert((o.u, o.v)));
    let has_connect = case.ops.iter().any(|o| matches!(o.kind, OpKind::Connect | OpKind::TryConnect));
    match which {
        Which::C01 | Which::C02 => has_connect && (has_removal || has_loop || has_parallel),
        Which::C03 => has_connect && (has_removal || has_loop || has_parallel || case.ops.iter().any(|o| o.pu != Prov::Orig || o.pv != Prov::Orig)),
    }
}

// ------------------------------------------------------------------ generators

fn prov_strategy() -> impl Strategy<Value = Prov> {
    prop_oneof![
        6 => Just(Prov::Orig),
        2 => Just(Prov::Clone),
        2 => Just(Prov::GraphGet),
        1 => Just(Prov::GraphIndex),
        2 => Just(Prov::EdgeEndpoint),
        1 => Just(Prov::FindResult),
        1 => Just(Prov::SearchResult),
        1 => Just(Prov::PathNode),
    ]
}

/// (n, p_self%, value range, ops)
pub fn hist_strategy(max_len: usize, max_n: usize) -> impl Strategy<Value = HistCase> {
    // a fifth of the cases: 2-3 nodes and long histories (hidden state kept between calls needs many
    // interactions on the same pair of nodes)
    (prop_oneof![4 => (2usize..=max_n).boxed(), 1 => (2usize..=3usize.min(max_n)).boxed()], 0u8..40, 1u32..=3, prop_oneof![3 => 0usize..=12, 3 => 0usize..=60, 2 => 0usize..=max_len]).prop_flat_map(move |(n, pself, vals, len)| {
        let op = (0u8..12, any::<u16>(), any::<u16>(), 0u8..100, 0u32..vals, prov_strategy(), prov_strategy(), 0u8..100, any::<u16>()).prop_map(move |(k, u, v, coin, e, pu, pv, gcoin, g)| {
            let kind = match k {
                0..=3 => OpKind::Connect,
                4..=5 => OpKind::TryConnect,
                6..=8 => OpKind::Disconnect,
                9 => OpKind::Isolate,
                _ => OpKind::Lookup,
            };
            let ui = pt::idx(u, n);
            let vi = if coin < pself { ui } else { pt::idx(v, n) };
            let gp = match kind {
                OpKind::Disconnect => 60,
                OpKind::TryConnect => 35,
                OpKind::Connect => 15,
                OpKind::Lookup => 50,
                OpKind::Isolate => 0,
            };
            HOp { kind, u: ui, v: if kind == OpKind::Isolate { ui } else { vi }, e, pu, pv: if kind == OpKind::Isolate { Prov::Orig } else { pv }, guide: if gcoin < gp { Some(g) } else { None } }
        });
        proptest::collection::vec(op, 0..=len).prop_map(move |ops| HistCase { n, ops, prelude: vec![] })
    })
}

/// Exhaustive: breadth-first over the *observed* abstract states of flavour F
/// with <= `max_edges` live edges on `n` nodes and values {0,1}; from every
/// state every operation with every operand choice is executed on nodes
/// rebuilt from the state's witness history.
pub fn enumerate<F: Flavour>(which: Which, n: usize, max_edges: usize, st: &mut Stats, wd: &Watchdog) {
    // A state is explored once per *history class* of the witness that reaches it
    // (has an isolate happened / a successful disconnect / a failed lookup-like call, and the kind of the
    // last call): state kept inside the implementation between calls (cached positions, memoised
    // lookups) is invisible in the observed state, so different kinds of histories leading to the
    // same observed state are all continued.
    type Class = (bool, bool, bool, u8);
    let class_of = |ops: &[HOp], last_ret_fail: bool, c: Class| -> Class {
        let last = ops.last().map(|o| o.kind as u8).unwrap_or(255);
        let (mut iso, mut disc, mut failed, _) = c;
        if let Some(o) = ops.last() {
            match o.kind {
                OpKind::Isolate => iso = true,
                OpKind::Disconnect if !last_ret_fail => disc = true,
                _ => {}
            }
            if last_ret_fail {
                failed = true;
            }
        }
        (iso, disc, failed, last)
    };
    let mut seen: std::collections::HashMap<State, HashSet<Class>> = std::collections::HashMap::new();
    let mut queue: VecDeque<(State, Vec<HOp>, Class)> = VecDeque::new();
    let s0 = State::empty(n);
    let c0: Class = (false, false, false, 255);
    seen.entry(s0.clone()).or_default().insert(c0);
    queue.push_back((s0, vec![], c0));
    let max_witness = 14usize;
    let mut all_ops = vec![];
    for u in 0..n {
        for v in 0..n {
            for e in 0..2 {
                all_ops.push(HOp { kind: OpKind::Connect, u, v, e, pu: Prov::Orig, pv: Prov::Orig, guide: None });
                all_ops.push(HOp { kind: OpKind::TryConnect, u, v, e, pu: Prov::Orig, pv: Prov::Orig, guide: None });
            }
            all_ops.push(HOp { kind: OpKind::Disconnect, u, v, e: 0, pu: Prov::Orig, pv: Prov::Orig, guide: None });
            all_ops.push(HOp { kind: OpKind::Lookup, u, v, e: 0, pu: Prov::Orig, pv: Prov::Orig, guide: None });
        }
        all_ops.push(HOp { kind: OpKind::Isolate, u, v: u, e: 0, pu: Prov::Orig, pv: Prov::Orig, guide: None });
    }
    let mut states = 0u64;
    let mut transitions = 0u64;
    while let Some((s, witness, cls)) = queue.pop_front() {
        states += 1;
        wd.beat(|| format!("enumerate {} {} state #{}", which.id(), F::NAME, states));
        let edges = if F::DIRECTED { s.edge_count_directed() } else { s.edge_count_undirected() };
        let special = {
            // self-loop or parallel edge present in the state
            (0..n).any(|u| s.out[u].iter().any(|x| x.0 as usize == u)) || (0..n).any(|u| { let mut p = HashSet::new(); s.out[u].iter().any(|x| !p.insert(x.0)) })
        };
        for op in &all_ops {
            if matches!(op.kind, OpKind::Connect) && edges >= max_edges {
                continue;
            }
            let mut ops = witness.clone();
            ops.push(*op);
            let case = HistCase { n, ops, prelude: vec![] };
            st.eval();
            transitions += 1;
            // only the last step is new: earlier prefixes were checked when
            // their state was dequeued, so check invariants from the last step
            let r = run_hist_last::<F>(&case, which, &s);
            match r {
                Err(sf) => {
                    st.report(finding::<F>(which, &case, &sf));
                }
                Ok(t) => {
                    let removal = matches!(op.kind, OpKind::Disconnect | OpKind::Isolate) && t != s;
                    if removal || special || op.u == op.v {
                        st.nontrivial(&(F::NAME, &s, op));
                    }
                    let te = if F::DIRECTED { t.edge_count_directed() } else { t.edge_count_undirected() };
                    let failed_call = t == s && !matches!(op.kind, OpKind::Isolate | OpKind::Lookup);
                    let c2 = class_of(&case.ops, failed_call, cls);
                    if te <= max_edges && case.ops.len() <= max_witness && seen.entry(t.clone()).or_default().insert(c2) {
                        if case.ops.len() >= 3 {
                            st.sample_kind("enumerated", 1, || json!({"enumerated": {"flavour": F::NAME, "state": &t, "witness_history": &case.ops}}));
                        }
                        queue.push_back((t, case.ops, c2));
                    }
                }
            }
        }
    }
    st.class_n(&format!("enumerated.distinct-states.{}.n{}e{}", F::NAME, n, max_edges), seen.len() as u64);
    st.class_n(&format!("enumerated.states.{}.n{}e{}", F::NAME, n, max_edges), states);
    st.class_n(&format!("enumerated.transitions.{}.n{}e{}", F::NAME, n, max_edges), transitions);
}

/// Replays the witness prefix without checks (it was checked before), then
/// checks the last step. `expect_pre` is the state the witness leads to.
fn run_hist_last<F: Flavour>(case: &HistCase, which: Which, expect_pre: &State) -> Result<State, StepFail> {
    if F::SYNC {
        hook::install_self_deadlock_detector();
    }
    let n = case.n;
    let nodes: Vec<F::Node> = (0..n).map(|i| F::new_node(i as Key, NVal::plain(i as i32))).collect();
    let last = case.ops.len() - 1;
    for op in &case.ops[..last] {
        let _ = apply_op::<F>(op.kind, &nodes[op.u], &nodes[op.v], op.v as Key, op.e);
    }
    let s = match observe::<F>(&nodes) {
        Ok(s) => s,
        Err(p) => return Err(StepFail { step: last, fail: Fail { clause: "observe.panic", detail: p }, pre: expect_pre.clone(), resolved: case.ops.clone() }),
    };
    if s != *expect_pre {
        return Err(StepFail { step: last, fail: Fail { clause: "history.not-deterministic", detail: format!("replaying the witness history gave {:?}, expected {:?}", s, expect_pre) }, pre: s, resolved: case.ops.clone() });
    }
    let op = &case.ops[last];
    let ret = apply_op::<F>(op.kind, &nodes[op.u], &nodes[op.v], op.v as Key, op.e);
    let t = match observe::<F>(&nodes) {
        Ok(t) => t,
        Err(p) => return Err(StepFail { step: last, fail: Fail { clause: if matches!(ret, Ret::Panic(_)) { "op.panic-and-state-unreadable" } else { "observe.panic" }, detail: format!("ret={:?} observe: {}", ret, p) }, pre: s, resolved: case.ops.clone() }),
    };
    let res: Result<(), Fail> = match which {
        Which::C03 => {
            if let Ret::Panic(p) = &ret {
                if p.starts_with(hook::SELF_DEADLOCK) {
                    fail("op.self-deadlock", p.clone())
                } else {
                    fail("op.panic", p.clone())
                }
            } else if F::DIRECTED {
                d_step(&s, op.kind, op.u, op.v, op.e, &ret, &t)
            } else {
                u_step(&s, op.kind, op.u, op.v, op.e, &ret, &t)
            }
        }
        Which::C01 => d_inv(&t).and_then(|_| redundant::<F>(&nodes, &t)),
        Which::C02 => u_inv(&t).and_then(|_| redundant::<F>(&nodes, &t)),
    };
    match res {
        Err(f) => Err(StepFail { step: last, fail: f, pre: s, resolved: case.ops.clone() }),
        // C01/C02 tolerate a panic as such (C03 reports it); the resulting
        // state satisfied the invariant and is explored like any other
        Ok(()) => Ok(t),
    }
}

pub fn replay(which: Which, v: &Value, st: &mut Stats) -> Result<(), String> {
    let case: HistCase = serde_json::from_value(json!({"n": v["n"], "ops": v["ops"]})).map_err(|e| e.to_string())?;
    let only = v["flavour"].as_str();
    run_all(&case, which, st, true, only);
    st.sample(|| json!({"replayed": v}));
    Ok(())
}

pub fn run(which: Which, ctx: &mut Ctx) {
    ctx.rule = match which {
        Which::C01 | Which::C02 => "cases = histories of connect/try_connect/disconnect/isolate: (a) every (observed abstract state, operation, operands) pair reachable with <=3 nodes, bounded live edges, values {0,1}, each state rebuilt on real nodes from a witness history; (b) proptest-generated histories on 2-8 nodes. Invariant checked after every step. Non-trivial = history with a connect and a removal (disconnect/isolate), a self-loop or a parallel edge; enumerated pairs count when the op removes something or the state has a self-loop/parallel edge. distinct = hash of (flavour, state, op) resp. of the whole history.".into(),
        Which::C03 => "same generators as C01/C02 on all four flavours; oracle = step relation between consecutive observed states (allowed-successor set for disconnect), no panic, no self-deadlock (lock-point hook), operands addressed through generated handle provenance. Non-trivial additionally when a non-original handle is used.".into(),
    };
    ctx.assumptions = vec![
        "iter_out/iter_in/iter are the observation; they are cross-checked against degrees, predicates, lookups and `for e in &node` after every step".into(),
        "sync flavours are exercised with the lock-point callback installed: 'would block' on the only thread = self-deadlock".into(),
    ];
    let tier = ctx.tier;
    let seed = ctx.seed;
    // (a) exhaustive small scope
    let bounds: Vec<(usize, usize)> = tier.pick(vec![(3, 3), (2, 4)], vec![(3, 4), (4, 3), (2, 6)]);
    let wd = ctx.watchdog.clone();
    let jobs: Vec<(usize, (usize, usize))> = (0..4).flat_map(|f| bounds.iter().map(move |b| (f, *b))).collect();
    let enumerated = parallel(jobs.len(), |w| {
        let mut st = Stats::new();
        let (f, (n, max_edges)) = jobs[w];
        match f {
            0 => { if which.applies::<Di>() { enumerate::<Di>(which, n, max_edges, &mut st, &wd) } }
            1 => { if which.applies::<SDi>() { enumerate::<SDi>(which, n, max_edges, &mut st, &wd) } }
            2 => { if which.applies::<Un>() { enumerate::<Un>(which, n, max_edges, &mut st, &wd) } }
            _ => { if which.applies::<SUn>() { enumerate::<SUn>(which, n, max_edges, &mut st, &wd) } }
        }
        st
    });
    let enum_failed = enumerated.has_findings();
    ctx.stats.merge(enumerated);
    ctx.exhaustive = Some(!enum_failed);
    ctx.stats.extra.insert("enumeration_bounds".into(), json!(bounds.iter().map(|b| json!({"nodes": b.0, "max_live_edges": b.1, "values": [0, 1]})).collect::<Vec<_>>()));
    // (b) random histories with shrinking
    let workers = tier.pick(4usize, 16usize);
    let cases_per_worker = tier.pick(5000u32, 40_000u32);
    let max_len = tier.pick(240usize, 600usize);
    let random = parallel(workers, |w| {
        let mut st = Stats::new();
        let cell = std::cell::RefCell::new(&mut st);
        let strat = hist_strategy(max_len, 8);
        let minimal = pt::run(seed, w as u64, cases_per_worker, &strat, |case, counting| {
            let mut st = cell.borrow_mut();
            wd.tick();
            if counting {
                if nontrivial(case, which) {
                    st.nontrivial(case);
                }
                st.class(&format!("len.{}", match case.ops.len() { 0..=5 => "0-5", 6..=20 => "6-20", 21..=60 => "21-60", _ => "61+" }));
                if case.ops.len() >= 6 {
                    st.sample_kind("history", 1, || json!({"history": case}));
                }
                run_all(case, which, &mut st, true, None)
            } else {
                let mut scratch = Stats::new();
                run_all(case, which, &mut scratch, false, None)
            }
        });
        drop(cell);
        if let Some(m) = minimal {
            // report the shrunk case (replace whatever the unshrunk run reported)
            st.findings.clear();
            run_all(&m, which, &mut st, false, None);
        }
        st
    });
    ctx.stats.merge(random);
    // (c) long histories on 3 nodes: state kept inside the implementation between calls needs many
    // interactions on the same few nodes (measured: a stale cached position that survives isolate()
    // shows up in about 1 of 1000 such histories)
    let long_cases = tier.pick(1200u32, 12_000u32);
    let long = parallel(workers, |w| {
        let mut st = Stats::new();
        let cell = std::cell::RefCell::new(&mut st);
        let strat = (3usize..=3, 0u8..25, 2u32..=3, 150usize..=320).prop_flat_map(|(n, pself, vals, len)| {
            let op = (0u8..12, any::<u16>(), any::<u16>(), 0u8..100, 0u32..vals, 0u8..100, any::<u16>()).prop_map(move |(k, u, v, coin, e, gcoin, g)| {
                let kind = match k {
                    0..=4 => OpKind::Connect,
                    5 => OpKind::TryConnect,
                    6..=8 => OpKind::Disconnect,
                    9 => OpKind::Isolate,
                    _ => OpKind::Lookup,
                };
                let ui = pt::idx(u, n);
                let vi = if coin < pself { ui } else { pt::idx(v, n) };
                HOp { kind, u: ui, v: if kind == OpKind::Isolate { ui } else { vi }, e, pu: Prov::Orig, pv: Prov::Orig, guide: if gcoin < 40 && kind == OpKind::Disconnect { Some(g) } else { None } }
            });
            proptest::collection::vec(op, len..=len + 30).prop_map(move |ops| HistCase { n, ops, prelude: vec![] })
        });
        let minimal = pt::run_with(seed, 50 + w as u64, long_cases, 3000, &strat, |case, counting| {
            wd.tick();
            if counting {
                let mut st = cell.borrow_mut();
                st.class("len.150+ on 3 nodes");
                st.nontrivial(case);
                run_all(case, which, &mut st, true, None)
            } else {
                let mut scratch = Stats::new();
                run_all(case, which, &mut scratch, false, None)
            }
        });
        drop(cell);
        if let Some(m) = minimal {
            st.findings.clear();
            run_all(&m, which, &mut st, false, None);
        }
        st
    });
    ctx.stats.merge(long);
    // (d) long adjacency lists: a hub with 9 .. 2100 parallel/out edges built by a burst of connects, then a
    // short checked history around the hub (try_connect in both directions with an edge in one direction
    // only, lookups, disconnects, isolate). Sizes sit on both sides of the powers of two.
    let sizes: Vec<u32> = tier.pick(vec![9, 17, 33, 65, 129, 257, 513, 1025, 2049, 4100, 8200], vec![9, 17, 33, 65, 129, 257, 513, 1025, 2049, 4100, 8200, 16_400, 33_000, 66_000, 132_000]);
    let mut scripted: Vec<HistCase> = vec![];
    for &k in &sizes {
        for inward in [false, true] {
            for split in [false, true] {
                let (a, b) = if inward { (1usize, 0usize) } else { (0, 1) };
                // one edge between the hub and node 2 before the burst and one with another value after it
                // (parallel edges whose list positions are k entries apart)
                let (pa, pb) = if inward { (2usize, 0usize) } else { (0, 2) };
                let mut prelude = vec![(pa, pb, 5, 1), (a, b, 0, if split { k / 2 } else { k })];
                if split {
                    prelude.push((if inward { 2 } else { 0 }, if inward { 0 } else { 2 }, 1, k - k / 2));
                }
                prelude.push((pa, pb, 6, 1));
                let o = |kind, u, v, e| HOp { kind, u, v, e, pu: Prov::Orig, pv: Prov::Orig, guide: None };
                // h = hub, f = a node with no edge to or from the hub so far
                let (h, f) = (0usize, 3usize);
                let (x, y) = if inward { (h, f) } else { (f, h) }; // the single edge goes against the hub's long list
                let ops = vec![
                    o(OpKind::Disconnect, pa, pb, 0),
                    o(OpKind::Connect, pa, pb, 7),
                    o(OpKind::Disconnect, pa, pb, 0),
                    o(OpKind::Lookup, h, f, 0),
                    o(OpKind::Connect, x, y, 1),
                    o(OpKind::TryConnect, y, x, 0),
                    o(OpKind::TryConnect, y, x, 0),
                    o(OpKind::TryConnect, h, 1, 1),
                    o(OpKind::TryConnect, 1, h, 1),
                    o(OpKind::Lookup, h, f, 0),
                    o(OpKind::Lookup, f, h, 0),
                    o(OpKind::Disconnect, y, x, 0),
                    o(OpKind::Disconnect, x, y, 0),
                    o(OpKind::Disconnect, h, 1, 0),
                    o(OpKind::Disconnect, 1, h, 0),
                    o(OpKind::TryConnect, h, h, 1),
                    o(OpKind::Connect, h, 2, 1),
                    o(OpKind::Lookup, h, 2, 0),
                    o(OpKind::Isolate, 1, 1, 0),
                    o(OpKind::TryConnect, h, 1, 0),
                    // the hub is isolated while node 2 is its neighbour in both directions
                    o(OpKind::Connect, 2, h, 3),
                    o(OpKind::Connect, h, 2, 4),
                    o(OpKind::Isolate, h, h, 0),
                    o(OpKind::Connect, h, 1, 0),
                ];
                scripted.push(HistCase { n: 4, ops, prelude });
            }
        }
    }
    for case in &scripted {
        ctx.watchdog.tick();
        ctx.stats.class("long-list.scripted");
        ctx.stats.nontrivial(case);
        run_all(case, which, &mut ctx.stats, true, None);
    }
    let ll_cases = tier.pick(700u32, 6000u32);
    // random tails: hubs up to 8200 entries only (a case costs one burst per flavour); the larger hubs are scripted above
    let sizes2: Vec<u32> = sizes.iter().cloned().filter(|k| *k <= 8200).collect();
    let longlist = parallel(workers, |w| {
        let mut st = Stats::new();
        let cell = std::cell::RefCell::new(&mut st);
        let sz = sizes2.clone();
        let strat = (0usize..sz.len(), 0u32..4, any::<bool>(), any::<bool>(), 8usize..=40).prop_flat_map(move |(si, jit, inward, split, len)| {
            let k = sz[si] + jit;
            let n = 4usize;
            let op = (0u8..12, any::<u16>(), any::<u16>(), 0u8..100, 0u32..2, 0u8..100, any::<u16>()).prop_map(move |(kk, u, v, coin, e, gcoin, g)| {
                let kind = match kk {
                    0..=2 => OpKind::Connect,
                    3..=5 => OpKind::TryConnect,
                    6..=8 => OpKind::Disconnect,
                    9 => OpKind::Isolate,
                    _ => OpKind::Lookup,
                };
                // half of the calls involve the hub (node 0)
                let (ui, vi) = match coin {
                    0..=24 => (0, pt::idx(v, n)),
                    25..=49 => (pt::idx(u, n), 0),
                    _ => (pt::idx(u, n), pt::idx(v, n)),
                };
                HOp { kind, u: ui, v: if kind == OpKind::Isolate { ui } else { vi }, e, pu: Prov::Orig, pv: Prov::Orig, guide: if gcoin < 10 && kind == OpKind::Disconnect { Some(g) } else { None } }
            });
            proptest::collection::vec(op, len..=len + 10).prop_map(move |ops| {
                let (a, b) = if inward { (1usize, 0usize) } else { (0, 1) };
                let mut prelude = vec![(a, b, 0, if split { k / 2 } else { k })];
                if split {
                    prelude.push((if inward { 2 } else { 0 }, if inward { 0 } else { 2 }, 1, k - k / 2));
                }
                HistCase { n, ops, prelude }
            })
        });
        let minimal = pt::run_with(seed, 90 + w as u64, ll_cases, 2000, &strat, |case, counting| {
            wd.tick();
            if counting {
                let mut st = cell.borrow_mut();
                st.class("long-list.random-tail");
                st.class(&format!("long-list.hub-degree.{}", match case.prelude.iter().map(|p| p.3).sum::<u32>() { 0..=64 => "<=64", 65..=256 => "65-256", 257..=1024 => "257-1024", _ => ">1024" }));
                st.nontrivial(case);
                run_all(case, which, &mut st, true, None)
            } else {
                let mut scratch = Stats::new();
                run_all(case, which, &mut scratch, false, None)
            }
        });
        drop(cell);
        if let Some(m) = minimal {
            st.findings.clear();
            run_all(&m, which, &mut st, false, None);
        }
        st
    });
    ctx.stats.merge(longlist);
}
