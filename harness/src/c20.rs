//! C20: graphs may be mutated from inside edge loops and traversal
//! callbacks. Case = (graph, loop kind, root, script of operations executed
//! from inside the loop at given yields).
use crate::ctx::*;
use crate::flavour::*;
use crate::hist::{apply_op, observe, redundant};
use crate::hook;
use crate::model::*;
use crate::pt;
use crate::search::{build, Cell};
use crate::searchrun::{graphs_exact, rawg_strategy, RawG};
use crate::types::*;
use proptest::prelude::*;
use serde::{Deserialize, Serialize};
use serde_json::{json, Value};
use std::cell::RefCell;
use std::panic::{catch_unwind, AssertUnwindSafe};

#[derive(Clone, Copy, Debug, PartialEq, Eq, Hash, Serialize, Deserialize)]
pub enum Who {
    /// source of the edge being yielded
    Src,
    /// target of the edge being yielded
    Dst,
    Root,
    Abs(Key),
}
#[derive(Clone, Copy, Debug, PartialEq, Eq, Hash, Serialize, Deserialize)]
pub enum SOp {
    Connect(Who, Who, EV),
    TryConnect(Who, Who, EV),
    Disconnect(Who, Who),
    Isolate(Who),
    /// degree / predicates / is_connected / find / sizeof
    Query(Who),
    /// a nested dfs path search from a to b
    Nested(Who, Who),
    /// nested edge loop over a's edges that itself disconnects every edge it sees
    NestedLoopDisconnect(Who),
    /// container calls on a container holding all nodes: get, remove + re-insert
    Container(Who),
    /// disconnect(a, b) followed by connect(a, b, new value): the list keeps its length
    Reweight(Who, Who, EV),
    /// disconnect(a, b) followed by connect(a, c, value)
    Redirect(Who, Who, Who, EV),
}
#[derive(Clone, Copy, Debug, PartialEq, Eq, Hash, Serialize, Deserialize)]
pub enum LoopKind {
    Iter(IterKind),
    /// the same iterators driven through std adapters (`map` + `take_while` + `collect`, which asks for
    /// `size_hint` while the loop is live); IterKind::IntoIter here means `(&node).into_iter()` + adapters
    IterAdapt(IterKind),
    /// for_each closure of a search / ordering
    ForEach,
    /// filter closure (accepts edges with even value, rejects odd ones)
    Filter,
}
#[derive(Clone, Debug, PartialEq, Eq, Hash, Serialize, Deserialize)]
pub struct LCase {
    pub g: GCase,
    pub root: Key,
    pub kind: LoopKind,
    /// ignored for LoopKind::Iter
    pub cell: Option<Cell>,
    /// (yield index at which the op runs, op)
    pub script: Vec<(usize, SOp)>,
}

fn who(w: Who, src: Key, dst: Key, root: Key, n: usize) -> usize {
    (match w {
        Who::Src => src,
        Who::Dst => dst,
        Who::Root => root,
        Who::Abs(k) => k % n as Key,
    }) as usize
}

const BUDGET_MSG: &str = "YIELD BUDGET EXCEEDED";

struct LoopState<'a, F: Flavour> {
    nodes: &'a [F::Node],
    container: RefCell<F::Graph>,
    yields: usize,
    budget: usize,
    script: &'a [(usize, SOp)],
    root: Key,
    transposed: bool,
    iter_kind: Option<IterKind>,
    problem: Option<Fail>,
    mutated_iterated_list: bool,
}

impl<'a, F: Flavour> LoopState<'a, F> {
    fn on_yield(&mut self, e: &F::Edge) {
        let i = self.yields;
        self.yields += 1;
        if self.yields > self.budget {
            panic!("{}", BUDGET_MSG);
        }
        let n = self.nodes.len();
        let (s, d, v) = F::tri(e);
        // 1. the yielded edge exists right now, with these endpoints and this value
        if self.problem.is_none() {
            let ok_range = (s as usize) < n && (d as usize) < n;
            let exists = ok_range && {
                // stored orientation: transposed traversals and iter_in report (stored target, stored source) reversed
                let (a, b) = if self.transposed { (d, s) } else { (s, d) };
                F::out_list(&self.nodes[a as usize]).contains(&(b, v)) && (!F::DIRECTED || F::in_list(&self.nodes[b as usize]).contains(&(a, v)))
            };
            if !exists {
                self.problem = Some(Fail { clause: "yield.edge-does-not-exist-now", detail: format!("yield #{} handed out {:?} which is not an edge at that moment", i, (s, d, v)) });
            } else if F::addr(F::e_src(e)) != F::addr(&self.nodes[s as usize]) || F::addr(F::e_dst(e)) != F::addr(&self.nodes[d as usize]) {
                self.problem = Some(Fail { clause: "yield.foreign-handle", detail: format!("yield #{} {:?}", i, (s, d, v)) });
            } else if let Some(k) = self.iter_kind {
                let anchored = match k {
                    IterKind::In => d == self.root,
                    _ => s == self.root,
                };
                if !anchored {
                    self.problem = Some(Fail { clause: "yield.not-an-edge-of-the-iterated-node", detail: format!("yield #{} {:?} while iterating node {}", i, (s, d, v), self.root) });
                }
            }
        }
        // 2. run the script operations scheduled for this yield
        let script = self.script;
        let mut expanded: Vec<(usize, SOp)> = vec![];
        for (at, op) in script.iter().filter(|x| x.0 == i) {
            match *op {
                SOp::Reweight(a, b, ev) => {
                    expanded.push((*at, SOp::Disconnect(a, b)));
                    expanded.push((*at, SOp::Connect(a, b, ev)));
                }
                SOp::Redirect(a, b, c, ev) => {
                    expanded.push((*at, SOp::Disconnect(a, b)));
                    expanded.push((*at, SOp::Connect(a, c, ev)));
                }
                o => expanded.push((*at, o)),
            }
        }
        for (at, op) in expanded.iter() {
            let _ = at;
            let r = self.root;
            let w = |x: Who| who(x, s, d, r, n);
            let pre = observe::<F>(self.nodes);
            let mut check: Option<(OpKind, usize, usize, EV, Ret)> = None;
            match *op {
                SOp::Connect(a, b, ev) => {
                    let (a, b) = (w(a), w(b));
                    check = Some((OpKind::Connect, a, b, ev, apply_op::<F>(OpKind::Connect, &self.nodes[a], &self.nodes[b], b as Key, ev)));
                }
                SOp::TryConnect(a, b, ev) => {
                    let (a, b) = (w(a), w(b));
                    check = Some((OpKind::TryConnect, a, b, ev, apply_op::<F>(OpKind::TryConnect, &self.nodes[a], &self.nodes[b], b as Key, ev)));
                }
                SOp::Disconnect(a, b) => {
                    let (a, b) = (w(a), w(b));
                    check = Some((OpKind::Disconnect, a, b, 0, apply_op::<F>(OpKind::Disconnect, &self.nodes[a], &self.nodes[b], b as Key, 0)));
                }
                SOp::Isolate(a) => {
                    let a = w(a);
                    check = Some((OpKind::Isolate, a, a, 0, apply_op::<F>(OpKind::Isolate, &self.nodes[a], &self.nodes[a], a as Key, 0)));
                }
                SOp::Query(a) => {
                    let nd = &self.nodes[w(a)];
                    let _ = (F::out_degree(nd), F::in_degree(nd), F::is_orphan(nd), F::is_connected(nd, d), F::find_out(nd, s).is_some(), F::find_in(nd, d).is_some(), F::node_sizeof(nd));
                }
                SOp::Nested(a, b) => {
                    let (a, b) = (w(a), w(b));
                    let _ = F::search(&self.nodes[a], &SearchCfg { algo: Algo::Dfs, transposed: false, term: Term::Path, target: Some(b as Key) }, Meth::None);
                    let _ = F::order(&self.nodes[a], &OrderCfg { ord: Ordk::Post, transposed: false, term: OTerm::Nodes }, Meth::None);
                }
                SOp::NestedLoopDisconnect(a) => {
                    let a = w(a);
                    let nd = &self.nodes[a];
                    let mut guard = 0;
                    F::iterate(nd, IterKind::Out, &mut |e2| {
                        guard += 1;
                        let _ = F::disconnect(nd, F::key(F::e_dst(e2)));
                        guard < 64
                    });
                }
                SOp::Reweight(..) | SOp::Redirect(..) => unreachable!("expanded above"),
                SOp::Container(a) => {
                    let k = w(a) as Key;
                    let mut c = self.container.borrow_mut();
                    let got = F::g_get(&c, k);
                    if let Some(nd) = F::g_remove(&mut c, k) {
                        F::g_insert(&mut c, nd);
                    }
                    let _ = (got.is_some(), F::g_len(&c), F::g_contains(&c, k));
                }
            }
            if let Some((kind, a, b, ev, ret)) = check {
                if !matches!(kind, OpKind::TryConnect) || ret == Ret::Ok {
                    // does the mutation touch the list being iterated / a node the traversal may hold?
                    if a == s as usize || a == d as usize || b == s as usize || b == d as usize || a == r as usize || b == r as usize {
                        self.mutated_iterated_list = true;
                    }
                }
                if self.problem.is_none() {
                    if let Ret::Panic(p) = &ret {
                        self.problem = Some(Fail { clause: if p.starts_with(hook::SELF_DEADLOCK) { "op-in-loop.self-deadlock" } else { "op-in-loop.panic" }, detail: format!("yield #{} {:?}: {}", i, op, p) });
                    } else if let (Ok(pre), Ok(post)) = (&pre, observe::<F>(self.nodes)) {
                        let r = if F::DIRECTED { d_step(pre, kind, a, b, ev, &ret, &post) } else { u_step(pre, kind, a, b, ev, &ret, &post) };
                        if let Err(f) = r {
                            self.problem = Some(Fail { clause: "op-in-loop.wrong-effect", detail: format!("yield #{} {:?}: {} ({})", i, op, f.clause, f.detail) });
                        }
                    } else {
                        self.problem = Some(Fail { clause: "op-in-loop.state-unreadable", detail: format!("yield #{} {:?}", i, op) });
                    }
                }
            }
        }
    }
}

pub fn run_case<F: Flavour>(c: &LCase, st: &mut Stats, counting: bool) -> bool {
    if F::SYNC {
        hook::install_self_deadlock_detector();
    }
    let nodes = build::<F>(&c.g);
    let mut cont = F::g_new();
    for nd in &nodes {
        F::g_insert(&mut cont, nd.clone());
    }
    // handles obtained before the loop: clones, neighbour lookups, edges
    let early_edges: Vec<F::Edge> = nodes.iter().flat_map(|nd| F::edges(nd, IterKind::Out)).collect();
    let connects = c.script.iter().filter(|x| matches!(x.1, SOp::Connect(..) | SOp::TryConnect(..) | SOp::Reweight(..) | SOp::Redirect(..))).count();
    let budget = 4 * (c.g.edges.len() + connects) + 16;
    let transposed = match (&c.kind, &c.cell) {
        // iter_in yields edges in stored orientation (source, this node, value); only transpose() reverses
        (LoopKind::Iter(_) | LoopKind::IterAdapt(_), _) => false,
        (_, Some(cell)) => cell.transposed(),
        _ => false,
    };
    let ls = RefCell::new(LoopState::<F> { nodes: &nodes, container: RefCell::new(cont), yields: 0, budget, script: &c.script, root: c.root, transposed, iter_kind: if let LoopKind::Iter(k) | LoopKind::IterAdapt(k) = c.kind { Some(k) } else { None }, problem: None, mutated_iterated_list: false });
    let r = catch_unwind(AssertUnwindSafe(|| {
        let rootn = &nodes[c.root as usize];
        match c.kind {
            LoopKind::Iter(k) => F::iterate(rootn, k, &mut |e| {
                ls.borrow_mut().on_yield(e);
                true
            }),
            LoopKind::IterAdapt(k) => F::iterate_adapters(rootn, k, &mut |e| {
                ls.borrow_mut().on_yield(e);
                true
            }),
            LoopKind::ForEach | LoopKind::Filter => {
                let mut fe = |e: &F::Edge| ls.borrow_mut().on_yield(e);
                let mut fl = |e: &F::Edge| -> bool {
                    ls.borrow_mut().on_yield(e);
                    F::e_val(e) % 2 == 0
                };
                let m: Meth<F> = if c.kind == LoopKind::ForEach { Meth::ForEach(&mut fe) } else { Meth::Filter(&mut fl) };
                match c.cell.as_ref().expect("cell") {
                    Cell::Search(cfg) => {
                        let _ = F::search(rootn, cfg, m);
                    }
                    Cell::Order(cfg) => {
                        let _ = F::order(rootn, cfg, m);
                    }
                }
            }
        }
    }));
    let ls = ls.into_inner();
    let mut fails: Vec<Fail> = vec![];
    match r {
        Err(p) => {
            let m = panic_msg(p);
            if m.contains(BUDGET_MSG) {
                fails.push(Fail { clause: "loop.does-not-terminate", detail: format!("more than {} yields although the script adds at most {} edges", budget, connects) });
            } else if let Some(f) = &ls.problem {
                // the panic was provoked by an operation inside the loop which was already diagnosed
                fails.push(f.clone());
            } else if m.starts_with(hook::SELF_DEADLOCK) {
                fails.push(Fail { clause: "loop.self-deadlock", detail: m });
            } else {
                fails.push(Fail { clause: "loop.panic", detail: m });
            }
        }
        Ok(()) => {
            if let Some(f) = ls.problem.clone() {
                fails.push(f);
            }
        }
    }
    if fails.is_empty() {
        // handles obtained earlier still answer consistently with the final state; invariants hold
        match observe::<F>(&nodes) {
            Err(p) => fails.push(Fail { clause: "after-loop.state-unreadable", detail: p }),
            Ok(t) => {
                let inv = if F::DIRECTED { d_inv(&t) } else { u_inv(&t) };
                if let Err(f) = inv.and_then(|_| redundant::<F>(&nodes, &t)) {
                    fails.push(Fail { clause: "after-loop.inconsistent-state", detail: format!("{}: {}", f.clause, f.detail) });
                }
                let r = catch_unwind(AssertUnwindSafe(|| {
                    early_edges.iter().all(|e| {
                        let (s, d, _) = F::tri(e);
                        F::key(F::e_src(e)) == s && F::prio(F::e_dst(e)) == c.g.prio[d as usize] && F::out_degree(F::e_src(e)) == t.out[s as usize].len()
                    })
                }));
                if !matches!(r, Ok(true)) {
                    fails.push(Fail { clause: "after-loop.earlier-handle-invalid", detail: "an Edge obtained before the loop no longer answers key/value/degree consistently".into() });
                }
            }
        }
    }
    if counting {
        st.eval();
        let label = match (&c.kind, &c.cell) {
            (LoopKind::Iter(k), _) => format!("loop.iter.{:?}", k),
            (LoopKind::IterAdapt(k), _) => format!("loop.iter-through-adapters.{:?}", k),
            (k, Some(cell)) => format!("loop.{}", cell.label(&if *k == LoopKind::ForEach { crate::search::MethSpec::ForEach } else { crate::search::MethSpec::Filter(Default::default()) })),
            _ => "loop.?".into(),
        };
        st.class(&label);
        if ls.yields > 0 && c.script.iter().any(|x| x.0 < ls.yields) {
            st.class("script.executed-at-least-one-op");
            if ls.mutated_iterated_list {
                st.class("script.mutated-a-node-of-the-yielded-edge-or-root");
                st.nontrivial(&(F::NAME, c));
            }
        }
    }
    let ok = fails.is_empty();
    for f in fails {
        let loopname = match (&c.kind, &c.cell) {
            (LoopKind::Iter(k), _) => format!("iter.{:?}", k),
            (LoopKind::IterAdapt(k), _) => format!("iter-through-adapters.{:?}", k),
            (LoopKind::ForEach, Some(cell)) => cell.label(&crate::search::MethSpec::ForEach),
            (_, Some(cell)) => cell.label(&crate::search::MethSpec::Filter(Default::default())),
            _ => "?".into(),
        };
        let opnames: Vec<String> = c.script.iter().map(|x| format!("{:?}", x.1).split('(').next().unwrap_or("").to_string()).collect();
        st.report(Finding {
            property: "C20".into(),
            flavour: F::NAME.into(),
            clause: f.clause.into(),
            signature: format!("{} | {} | script ops {:?} | {}", F::NAME, loopname, opnames, f.clause),
            case: json!({"kind": "loop", "flavour": F::NAME, "g": c.g, "root": c.root, "loop": c.kind, "cell": c.cell, "script": c.script}),
            detail: f.detail,
        });
    }
    ok
}

pub fn applicable<F: Flavour>(c: &LCase) -> bool {
    match (&c.kind, &c.cell) {
        (LoopKind::Iter(IterKind::In) | LoopKind::IterAdapt(IterKind::In), _) => F::DIRECTED,
        (LoopKind::Iter(_) | LoopKind::IterAdapt(_), _) => true,
        (_, Some(cell)) => F::DIRECTED || !cell.transposed(),
        _ => false,
    }
}

pub fn run_all(c: &LCase, st: &mut Stats, counting: bool, only: Option<&str>) -> bool {
    let mut ok = true;
    macro_rules! go {
        ($F:ty) => {
            if only.map_or(true, |o| o == <$F>::NAME) && applicable::<$F>(c) {
                ok &= run_case::<$F>(c, st, counting);
            }
        };
    }
    go!(Di);
    go!(SDi);
    go!(Un);
    go!(SUn);
    ok
}

/// every loop kind (cell = None for plain iterators)
pub fn loop_kinds() -> Vec<(LoopKind, Option<Cell>)> {
    let mut v: Vec<(LoopKind, Option<Cell>)> = vec![(LoopKind::Iter(IterKind::Out), None), (LoopKind::Iter(IterKind::In), None), (LoopKind::Iter(IterKind::IntoIter), None), (LoopKind::IterAdapt(IterKind::Out), None), (LoopKind::IterAdapt(IterKind::In), None), (LoopKind::IterAdapt(IterKind::IntoIter), None)];
    for tr in [false, true] {
        for algo in crate::search::ALGOS {
            for (term, target) in [(Term::Search, None), (Term::Path, None), (Term::Path, Some(1 as Key)), (Term::Search, Some(2 as Key)), (Term::Cycle, None)] {
                for k in [LoopKind::ForEach, LoopKind::Filter] {
                    v.push((k, Some(Cell::Search(SearchCfg { algo, transposed: tr, term, target }))));
                }
            }
        }
        for ord in [Ordk::Pre, Ordk::Post] {
            for term in [OTerm::Nodes, OTerm::Edges] {
                for k in [LoopKind::ForEach, LoopKind::Filter] {
                    v.push((k, Some(Cell::Order(OrderCfg { ord, transposed: tr, term }))));
                }
            }
        }
    }
    v
}

fn op_alphabet(full: bool) -> Vec<SOp> {
    let whos = [Who::Src, Who::Dst, Who::Root];
    let mut v = vec![];
    for a in whos {
        for b in whos {
            v.push(SOp::Connect(a, b, 50));
            v.push(SOp::Disconnect(a, b));
            if full {
                v.push(SOp::TryConnect(a, b, 51));
            }
        }
        v.push(SOp::Isolate(a));
        if full {
            v.push(SOp::Query(a));
            v.push(SOp::Nested(a, Who::Root));
            v.push(SOp::NestedLoopDisconnect(a));
            v.push(SOp::Container(a));
        }
    }
    if full {
        v.push(SOp::Connect(Who::Abs(0), Who::Abs(1), 52));
        v.push(SOp::Disconnect(Who::Abs(1), Who::Abs(0)));
        v.push(SOp::Isolate(Who::Abs(2)));
    }
    v
}

fn sop_strategy() -> impl Strategy<Value = SOp> {
    let who = || prop_oneof![3 => Just(Who::Src), 3 => Just(Who::Dst), 2 => Just(Who::Root), 2 => (0 as Key..8).prop_map(Who::Abs)];
    prop_oneof![
        4 => (who(), who(), 50u32..54).prop_map(|(a, b, e)| SOp::Connect(a, b, e)),
        2 => (who(), who(), 50u32..54).prop_map(|(a, b, e)| SOp::TryConnect(a, b, e)),
        4 => (who(), who()).prop_map(|(a, b)| SOp::Disconnect(a, b)),
        2 => who().prop_map(SOp::Isolate),
        1 => who().prop_map(SOp::Query),
        1 => (who(), who()).prop_map(|(a, b)| SOp::Nested(a, b)),
        1 => who().prop_map(SOp::NestedLoopDisconnect),
        1 => who().prop_map(SOp::Container),
        3 => (who(), who(), 60u32..64).prop_map(|(a, b, e)| SOp::Reweight(a, b, e)),
        2 => (who(), who(), who(), 64u32..68).prop_map(|(a, b, c, e)| SOp::Redirect(a, b, c, e)),
    ]
}

#[derive(Clone, Debug)]
struct RawL {
    g: RawG,
    kind: u16,
    script: Vec<(usize, SOp)>,
    /// Some(d): replace the graph by a hub — the root gets d edges (out, in, or both) so that long adjacency lists are iterated
    hub: Option<(u8, u8)>,
}

fn rawl_strategy() -> impl Strategy<Value = RawL> {
    (rawg_strategy(10), any::<u16>(), proptest::collection::vec((prop_oneof![3 => 0usize..3, 1 => 3usize..12], sop_strategy()), 1..=6), proptest::option::weighted(0.3, (6u8..18, 0u8..3))).prop_map(|(g, kind, script, hub)| RawL { g, kind, script, hub })
}

impl RawL {
    fn case(&self) -> LCase {
        let mut g = self.g.graph();
        let kinds = loop_kinds();
        let (kind, cell) = kinds[pt::idx(self.kind, kinds.len())].clone();
        let mut root = pt::idx(self.g.root, g.n) as Key;
        if let Some((d, dir)) = self.hub {
            // hub: node 0 with d edges to/from the other nodes (parallel edges when d > n-1), existing edges kept after them
            let n = g.n.max(4);
            g.n = n;
            g.prio.resize(n, 0);
            let mut edges: Vec<Tri> = vec![];
            for i in 0..d as usize {
                let peer = (1 + i % (n - 1)) as Key;
                if dir != 1 {
                    edges.push((0, peer, 200 + i as EV));
                }
                if dir != 0 {
                    edges.push((peer, 0, 300 + i as EV));
                }
            }
            edges.extend(g.edges.iter().cloned());
            g.edges = edges;
            root = 0;
        }
        LCase { g, root, kind, cell, script: self.script.clone() }
    }
}

pub fn run(ctx: &mut Ctx) {
    ctx.rule = "cases = (graph, root, loop kind, script): loop kinds = iter_out / iter_in / iter / `for e in &node` and the for_each / filter closures of bfs, dfs, pfs-min, pfs-max x {search, search_path, with/without target, search_cycle} and pre/postorder x {search_nodes, search_edges}, transposed and not; script = operations executed from inside the loop at given yields (connect, try_connect, disconnect, isolate on the yielded edge's source/target, the root or another node; queries; nested searches; a nested edge loop that disconnects what it sees; container get/remove/insert). (a) enumerated: every ordered multigraph on <=N nodes with <=M edges x every root x every loop kind x every single operation of the alphabet at yields 0..2, and every pair of mutations at yields (0,0),(0,1),(1,1),(1,2); (b) proptest graphs up to 10 nodes with scripts of up to 6 operations. Oracle: no panic / self-deadlock (lock-point hook) / yield budget overrun; every yielded edge is, at that moment, an edge of the observed state with its own endpoints' allocations (and belongs to the iterated node for plain iterators); each mutation inside the loop satisfies the C03 step relation; afterwards invariants hold and handles obtained before the loop still answer consistently. Non-trivial = a script operation actually ran and mutated a node of the yielded edge or the root; distinct = hash of (flavour, case).".into();
    ctx.assumptions = vec!["'exists at the moment it is yielded' is judged against the adjacency lists observed from inside the closure at that yield".into(), "yield budget 4*(|E| + connects in the script) + 16".into()];
    let tier = ctx.tier;
    let seed = ctx.seed;
    let wd = ctx.watchdog.clone();
    let bounds: Vec<(usize, usize)> = tier.pick(vec![(1, 2), (2, 2), (3, 1)], vec![(1, 3), (2, 3), (3, 3)]);
    let pair_bounds: Vec<(usize, usize)> = tier.pick(vec![(2, 2)], vec![(2, 2), (3, 2)]);
    let kinds = loop_kinds();
    let single = op_alphabet(true);
    let muts = op_alphabet(false);
    let workers = 16usize;
    let enumerated = parallel(workers, |w| {
        let mut st = Stats::new();
        let mut i = 0u64;
        let mut visit = |g: &GCase, st: &mut Stats, pairs: bool| {
            for root in 0..g.n as Key {
                for (kind, cell) in &kinds {
                    i += 1;
                    if i % workers as u64 != w as u64 {
                        continue;
                    }
                    wd.tick();
                    if !pairs {
                        for op in &single {
                            for at in 0..3usize {
                                let c = LCase { g: g.clone(), root, kind: *kind, cell: cell.clone(), script: vec![(at, *op)] };
                                run_all(&c, st, true, None);
                            }
                        }
                    } else {
                        for a in &muts {
                            for b in &muts {
                                for (x, y) in [(0usize, 0usize), (0, 1), (1, 1), (1, 2)] {
                                    let c = LCase { g: g.clone(), root, kind: *kind, cell: cell.clone(), script: vec![(x, *a), (y, *b)] };
                                    if g.edges.len() == 2 && root == 0 && x == 0 && y == 1 {
                                        st.sample_kind("enumerated-pair", 1, || json!({"enumerated_loop_case": c}));
                                    }
                                    run_all(&c, st, true, None);
                                }
                            }
                        }
                    }
                }
            }
        };
        for &(n, maxm) in &bounds {
            for m in 1..=maxm {
                graphs_exact(n, m, |g| {
                    st.class("graphs.enumerated-single-op");
                    visit(g, &mut st, false)
                });
            }
        }
        for &(n, maxm) in &pair_bounds {
            for m in 1..=maxm {
                graphs_exact(n, m, |g| {
                    st.class("graphs.enumerated-op-pairs");
                    visit(g, &mut st, true)
                });
            }
        }
        st
    });
    let failed = enumerated.has_findings();
    ctx.stats.merge(enumerated);
    ctx.exhaustive = Some(!failed);
    ctx.stats.extra.insert("enumeration_bounds".into(), json!({"single_op": bounds.iter().map(|b| json!({"nodes": b.0, "max_edges": b.1})).collect::<Vec<_>>(), "op_pairs": pair_bounds.iter().map(|b| json!({"nodes": b.0, "max_edges": b.1})).collect::<Vec<_>>(), "loop_kinds": kinds.len(), "single_op_alphabet": single.len(), "mutation_alphabet": muts.len()}));
    let cases = tier.pick(6000u32, 60_000u32);
    let random = parallel(tier.pick(8, 16), |w| {
        let mut st = Stats::new();
        let cell = std::cell::RefCell::new(&mut st);
        let strat = rawl_strategy();
        let minimal = pt::run(seed, 600 + w as u64, cases, &strat, |raw, counting| {
            wd.tick();
            let c = raw.case();
            if counting {
                let mut st = cell.borrow_mut();
                if raw.hub.is_some() {
                    st.class("random.hub-graph(long adjacency list at the root)");
                }
                if c.g.edges.len() >= 4 && c.script.len() >= 2 {
                    st.sample_kind("random", 1, || json!({"random_loop_case": c}));
                }
                run_all(&c, &mut st, true, None)
            } else {
                let mut scratch = Stats::new();
                run_all(&c, &mut scratch, false, None)
            }
        });
        drop(cell);
        if let Some(m) = minimal {
            let mut only = Stats::new();
            run_all(&m.case(), &mut only, false, None);
            for (sig, f) in only.findings {
                st.findings.insert(sig, f);
            }
        }
        st
    });
    ctx.stats.merge(random);
}

pub fn replay(v: &Value, st: &mut Stats) -> Result<(), String> {
    let c: LCase = serde_json::from_value(json!({"g": v["g"], "root": v["root"], "kind": v["loop"], "cell": v["cell"], "script": v["script"]})).map_err(|e| e.to_string())?;
    if c.g.prio.len() != c.g.n || c.g.n == 0 || c.root as usize >= c.g.n || c.g.edges.iter().any(|e| e.0 as usize >= c.g.n || e.1 as usize >= c.g.n) {
        return Err("malformed case".into());
    }
    run_all(&c, st, true, v["flavour"].as_str());
    st.sample(|| json!({"replayed": c}));
    Ok(())
}
