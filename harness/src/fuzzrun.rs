//! Note on memory limits: libFuzzer's rss limit looks at getrusage().ru_maxrss, which a child inherits
//! from its parent across fork+exec — after a thorough run (several GB of bookkeeping in gv) every
//! fuzzer reported "out-of-memory" at start-up. The rss limit is therefore off; single allocations
//! are capped with -malloc_limit_mb instead.
//!
//! Shared driver for the cargo-fuzz targets: runs `jobs` libFuzzer processes
//! on the committed seed corpus, counts executions into the evidence and
//! returns the crash artifacts (time / memory budget hits are reported as
//! inconclusive, never as violations). Artifacts are judged by the caller in
//! child processes through the same oracle.
use crate::ctx::*;
use serde_json::json;
use std::path::PathBuf;

pub fn fuzz_dir() -> PathBuf {
    verif_root().join("harness").join("fuzz")
}

pub fn campaign(ctx: &mut Ctx, target: &str, dict: Option<&str>, max_len: usize, runs: u64, jobs: usize, env: &[(&str, &str)]) -> Vec<PathBuf> {
    // quick: dev profile (fast to rebuild after a source change), thorough: release
    let bin = verif_root().join("harness/target/x86_64-unknown-linux-gnu").join(if ctx.tier == Tier::Quick { "debug" } else { "release" }).join(target);
    if !bin.exists() {
        ctx.inconclusive.push(format!("fuzz target binary {} not built (check.sh builds it with cargo +nightly fuzz build)", bin.display()));
        return vec![];
    }
    let corpus = fuzz_dir().join("corpus").join(target);
    let tag = env.iter().map(|e| e.1).collect::<Vec<_>>().join("-");
    let work = verif_root().join("out").join("fuzz").join(format!("{}{}", target, if tag.is_empty() { String::new() } else { format!("-{}", tag) }));
    let art = work.join("artifacts");
    let wc = work.join("corpus");
    let _ = std::fs::remove_dir_all(&work);
    let _ = std::fs::create_dir_all(&art);
    let _ = std::fs::create_dir_all(&wc);
    let seeds: Vec<PathBuf> = std::fs::read_dir(&corpus).map(|r| r.filter_map(|e| e.ok()).map(|e| e.path()).collect()).unwrap_or_default();
    let parse_execs = |out: &str| -> u64 {
        for l in out.lines().rev() {
            if let Some(p) = l.find("stat::number_of_executed_units:") {
                return l[p + 31..].trim().parse().unwrap_or(0);
            }
            if l.starts_with("Done ") {
                return l.split_whitespace().nth(1).and_then(|x| x.parse().ok()).unwrap_or(0);
            }
        }
        0
    };
    let mut children = vec![];
    for j in 0..jobs {
        let mut cmd = std::process::Command::new(&bin);
        let _ = std::fs::create_dir_all(wc.join(format!("w{}", j)));
        cmd.arg(wc.join(format!("w{}", j)));
        if !seeds.is_empty() {
            cmd.arg(&corpus);
        }
        cmd.args([format!("-runs={}", runs / jobs as u64), format!("-seed={}", (ctx.seed.wrapping_mul(31).wrapping_add(j as u64) % 4_000_000_000) + 1), format!("-max_len={}", max_len), "-len_control=0".into(), "-print_final_stats=1".into(), "-timeout=20".into(), "-rss_limit_mb=0".into(), "-malloc_limit_mb=1024".into(), format!("-artifact_prefix={}/", art.display())]);
        if let Some(d) = dict {
            cmd.arg(format!("-dict={}", fuzz_dir().join(d).display()));
        }
        for (k, v) in env {
            cmd.env(k, v);
        }
        // stderr to a file: libFuzzer is chatty and a full pipe would stall the child
        let logf = work.join(format!("w{}.log", j));
        match std::fs::File::create(&logf) {
            Ok(f) => {
                cmd.stdout(std::process::Stdio::null()).stderr(f);
            }
            Err(_) => {
                cmd.stdout(std::process::Stdio::null()).stderr(std::process::Stdio::null());
            }
        }
        match cmd.spawn() {
            Ok(c) => children.push((c, logf)),
            Err(e) => ctx.inconclusive.push(format!("cannot start the fuzz target: {}", e)),
        }
    }
    let mut total_execs = 0u64;
    for (mut c, logf) in children {
        loop {
            ctx.watchdog.tick();
            match c.try_wait() {
                Ok(Some(_)) | Err(_) => break,
                Ok(None) => std::thread::sleep(std::time::Duration::from_millis(200)),
            }
        }
        let text = std::fs::read_to_string(&logf).unwrap_or_default();
        total_execs += parse_execs(&text);
    }
    ctx.stats.evals_n(total_execs);
    ctx.stats.extra.insert(format!("fuzz.{}", target), json!({"target": target, "engine": "libFuzzer (cargo-fuzz, ASan)", "profile": if ctx.tier == Tier::Quick { "dev" } else { "release" }, "executions": total_execs, "jobs": jobs, "seed_corpus_files": seeds.len(), "max_len": max_len, "restricted_to": tag}));
    let mut out = vec![];
    let arts: Vec<PathBuf> = std::fs::read_dir(&art).map(|r| r.filter_map(|e| e.ok()).map(|e| e.path()).collect()).unwrap_or_default();
    for a in arts {
        let name = a.file_name().map(|x| x.to_string_lossy().to_string()).unwrap_or_default();
        if name.starts_with("oom-") && target == "deser" {
            // a small document that asks for a giant allocation: let the caller judge it in a fresh process
            out.push(a);
            continue;
        }
        if name.starts_with("slow-unit-") {
            // libFuzzer's note that one input took more than 10 s (a loaded machine is enough); the campaign went on
            // and the input was executed and judged like every other: counted, not a verdict of any kind
            *ctx.stats.extra.entry("fuzz_slow_units_noted".to_string()).or_insert(serde_json::json!(0)) = serde_json::json!(ctx.stats.extra.get("fuzz_slow_units_noted").and_then(|v| v.as_u64()).unwrap_or(0) + 1);
            let _ = std::fs::remove_file(&a);
            continue;
        }
        if name.starts_with("timeout-") && target == "ops" {
            // re-run in a fresh process with a generous limit: a real hang stays a hang there
            out.push(a);
            continue;
        }
        if name.starts_with("timeout-") || name.starts_with("oom-") {
            ctx.inconclusive.push(format!("libFuzzer reported {} (kept at {}); a time/memory budget hit is not a violation", name, a.display()));
            continue;
        }
        out.push(a);
    }
    out
}

/// the auxiliary `ops` campaign for one property (thorough tier): artifacts are decoded and judged
/// in a child process (`gv OPS-one <prop> <file>`), so a crash of the library cannot take the check down
pub fn ops_campaign(ctx: &mut Ctx, prop: &str, runs: u64, jobs: usize) {
    let arts = campaign(ctx, "ops", None, 160, runs, jobs, &[("GV_OPS_PROP", prop)]);
    for a in arts {
        let (code, out) = crate::deser::child(&["OPS-one".into(), prop.into(), a.display().to_string()], 120);
        match code {
            Some(10) => {
                if let Some(st) = out.lines().last().and_then(|l| serde_json::from_str::<Stats>(l).ok()) {
                    ctx.stats.merge(st);
                }
            }
            Some(0) if a.file_name().map_or(false, |n| n.to_string_lossy().starts_with("timeout-")) => {
                // completed, and judged clean, in a fresh process within its limit: the 20 s in-campaign timeout was the machine's load
                *ctx.stats.extra.entry("fuzz_timeouts_rerun_clean".to_string()).or_insert(serde_json::json!(0)) = serde_json::json!(ctx.stats.extra.get("fuzz_timeouts_rerun_clean").and_then(|v| v.as_u64()).unwrap_or(0) + 1);
                let _ = std::fs::remove_file(&a);
            }
            Some(0) => ctx.inconclusive.push(format!("libFuzzer artifact {} does not reproduce in a fresh process", a.display())),
            other => ctx.inconclusive.push(format!("libFuzzer artifact {} terminates a fresh process (exit {:?}) — kept for inspection", a.display(), other)),
        }
    }
}

/// child: decode one `ops` input and print the Stats (findings carry replayable structured cases)
pub fn ops_one_child(prop: &str, path: &str) -> i32 {
    let data = std::fs::read(path).unwrap_or_default();
    let mut st = Stats::new();
    let r = std::panic::catch_unwind(std::panic::AssertUnwindSafe(|| {
        let mut st2 = Stats::new();
        crate::fuzzops::run_bytes(Some(prop), &data, &mut st2);
        st2
    }));
    if let Ok(s) = r {
        st.merge(s);
    }
    println!("{}", serde_json::to_string(&st).unwrap_or_default());
    if st.has_findings() {
        10
    } else {
        0
    }
}
