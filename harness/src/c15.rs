//! C15: sync flavours are drop-in replacements in single-threaded code.
//! Differential: the same generated program is run through the `Flavour`
//! trait on the plain and on the sync member of a pair; the traces of
//! observations must be equal step by step.
use crate::ctx::*;
use crate::flavour::*;
use crate::hist::{apply_op, observe};
use crate::hook;
use crate::model::*;
use crate::pt;
use crate::search::{budget_for, exec, Cell, MethSpec};
use crate::types::*;
use proptest::prelude::*;
use serde::{Deserialize, Serialize};
use serde_json::{json, Value};
use std::collections::{BTreeMap, BTreeSet};
use std::panic::{catch_unwind, AssertUnwindSafe};

#[derive(Clone, Debug, PartialEq, Eq, Hash, Serialize, Deserialize)]
pub enum PStep {
    Edge(OpKind, u16, u16, EV),
    Query(u16, u16),
    /// (root, cell, closure kind: 0 none, 1 for_each, 2 filter, 3 for_each relaxing node values, 4 filter running a nested search; salt)
    Search(u16, Cell, u8, u8),
    Compare(u16, u16),
    CompareEdges(u16, u16),
    GInsert(u16),
    /// insert a *new* node (own allocation, value 500 + p) with a possibly existing key
    GInsertNew(u16, u8),
    GGet(u16),
    GRemove(u16),
    GViews,
    GScc,
    GDot,
    GSerde(bool),
    /// deserialise a hand-made document derived from the current graph: (cbor?, perturbation 0..6)
    GDeserDoc(bool, u8),
    /// search + connect through the result handle
    ConnectViaSearch(u16, u16, EV),
    /// an edge loop / traversal closure over node u that mutates the graph while it runs
    /// (mode 0: disconnect every yielded edge; 1: connect a new edge per yield, at most 4; 2: isolate at the
    /// first yield; 3: bfs for_each closure that disconnects what it is shown; 4: iter_in + disconnect)
    LoopMutate(u16, u8),
}

#[derive(Clone, Debug, PartialEq, Eq, Hash, Serialize, Deserialize)]
pub struct Prog {
    pub n: usize,
    pub prio: Vec<i32>,
    pub steps: Vec<PStep>,
}

fn pure_reject(salt: u8, t: Tri) -> bool {
    (t.0 as u32 + 2 * t.1 as u32 + t.2 + salt as u32) % 4 == 0
}

fn canon_doc(nodes: &mut Vec<(Key, i32)>, edges: &[(Key, Key, EV)], directed: bool) -> String {
    nodes.sort();
    // edges grouped by source, per-source order kept (directed); undirected: sorted unordered pairs
    if directed {
        let mut by: BTreeMap<Key, Vec<(Key, EV)>> = BTreeMap::new();
        for &(u, v, e) in edges {
            by.entry(u).or_default().push((v, e));
        }
        format!("nodes={:?} edges={:?}", nodes, by)
    } else {
        let mut es: Vec<(Key, Key, EV)> = edges.iter().map(|&(u, v, e)| (u.min(v), u.max(v), e)).collect();
        es.sort();
        format!("nodes={:?} edges={:?}", nodes, es)
    }
}

/// Runs the program on flavour F; one trace line per step.
pub fn run_prog<F: Flavour>(p: &Prog, st: Option<&mut Stats>) -> Vec<String> {
    if F::SYNC {
        hook::install_self_deadlock_detector();
    }
    let n = p.n;
    let nodes: Vec<F::Node> = (0..n).map(|i| F::new_node(i as Key, NVal::plain(p.prio[i]))).collect();
    let mut g = F::g_new();
    // key -> is the member the primary node (the one the edge operations act on)?
    let mut members: BTreeMap<Key, bool> = BTreeMap::new();
    let mut trace = vec![];
    let mut edges_seen: Vec<F::Edge> = vec![];
    let mut classes: Vec<&'static str> = vec![];
    for step in &p.steps {
        let r = catch_unwind(AssertUnwindSafe(|| -> String {
            match step {
                PStep::Edge(kind, u, v, e) => {
                    let (u, v) = (pt::idx(*u, n), pt::idx(*v, n));
                    let ret = apply_op::<F>(*kind, &nodes[u], &nodes[v], v as Key, *e);
                    if let Ret::Panic(_) = ret {
                        panic!("op panicked");
                    }
                    format!("{:?}({},{},{}) -> {:?} ; state {:?}", kind, u, v, e, ret, observe::<F>(&nodes))
                }
                PStep::Query(u, k) => {
                    let nd = &nodes[pt::idx(*u, n)];
                    let k = pt::idx(*k, n + 1) as Key;
                    format!(
                        "query {} {}: deg {} {} orphan {} root {} leaf {} connected {} find {:?} {:?} value {} {}",
                        F::key(nd), k, F::out_degree(nd), F::in_degree(nd), F::is_orphan(nd), F::is_root(nd), F::is_leaf(nd), F::is_connected(nd, k),
                        F::find_out(nd, k).map(|x| F::key(&x)), F::find_in(nd, k).map(|x| F::key(&x)), F::prio(nd), F::prio_deref(nd)
                    )
                }
                PStep::Search(root, cell, mk, salt) => {
                    let root = pt::idx(*root, n) as Key;
                    let gc = current_graph::<F>(&nodes);
                    let view = gc.view(F::DIRECTED, cell.transposed());
                    let meth = match mk % 5 {
                        0 => MethSpec::None,
                        1 => MethSpec::ForEach,
                        // the Dijkstra idiom: node values move (interior mutability) while the nodes are queued
                        3 => MethSpec::Relax,
                        4 => crate::search::nested_filter(&gc, F::DIRECTED, cell.transposed(), [Algo::Bfs, Algo::Dfs, Algo::PfsMin][*salt as usize % 3], ((*salt as usize / 3) % n) as Key),
                        _ => {
                            let mut rej = BTreeSet::new();
                            for s in 0..view.n {
                                for &(t, e) in &view.inc[s] {
                                    if pure_reject(*salt, (s as Key, t, e)) {
                                        rej.insert((s as Key, t, e));
                                    }
                                }
                            }
                            MethSpec::Filter(rej)
                        }
                    };
                    let out = exec::<F>(&nodes, root, cell, &meth, budget_for(&gc) * 2);
                    for e in F::edges(&nodes[root as usize], IterKind::Out).into_iter().take(3) {
                        edges_seen.push(e);
                    }
                    format!("search root {} {} -> found {:?} path {:?} nodes {:?} edges {:?} calls {:?} abnormal {} budget {} handles {} final-values {:?} nested {:?}", root, cell.label(&meth), out.found, out.path, out.nodes, out.edges, out.calls, out.panic.is_some(), out.over_budget, out.handles_ok && out.found_same_alloc && out.path_access.is_none(), out.final_prio, out.nested_wrong.is_some())
                }
                PStep::Compare(a, b) => {
                    let (a, b) = (&nodes[pt::idx(*a, n)], &nodes[pt::idx(*b, n)]);
                    format!("compare {} {}: {} {} {:?} {:?} {:?}", F::key(a), F::key(b), F::node_eq(a, b), F::node_ne(a, b), F::node_cmp(a, b), F::node_partial_cmp(a, b), F::node_rel(a, b))
                }
                PStep::CompareEdges(a, b) => {
                    if edges_seen.is_empty() {
                        "compare-edges: none".to_string()
                    } else {
                        let (x, y) = (&edges_seen[pt::idx(*a, edges_seen.len())], &edges_seen[pt::idx(*b, edges_seen.len())]);
                        // also against an edge made of fresh nodes with the same keys (what a round trip or a second build gives)
                        let (xs, xd, xe) = F::tri(x);
                        let twin = F::mk_edge(&F::new_node(xs, NVal::plain(0)), &F::new_node(xd, NVal::plain(0)), xe);
                        let other = F::mk_edge(&F::new_node(xs, NVal::plain(0)), &F::new_node(xd, NVal::plain(0)), xe + 1);
                        format!("compare-edges {:?} {:?}: eq {} rev {:?} acc {:?} eq-twin {} {} eq-other-value {}", F::tri(x), F::tri(y), F::edge_eq(x, y), F::tri(&F::e_reverse(x)), F::e_accessors(x), F::edge_eq(x, &twin), F::edge_eq(&twin, x), F::edge_eq(x, &other))
                    }
                }
                PStep::GInsert(k) => {
                    let k = pt::idx(*k, n);
                    let r = F::g_insert(&mut g, nodes[k].clone());
                    if r {
                        members.insert(k as Key, true);
                    }
                    format!("insert {} -> {} len {} empty {}", k, r, F::g_len(&g), F::g_is_empty(&g))
                }
                PStep::GInsertNew(k, pv) => {
                    let k = pt::idx(*k, n + 1) as Key;
                    let r = F::g_insert(&mut g, F::new_node(k, NVal::plain(500 + *pv as i32)));
                    if r {
                        members.insert(k, false);
                    }
                    format!("insert-new {} -> {} len {}", k, r, F::g_len(&g))
                }
                PStep::GGet(k) => {
                    let k = pt::idx(*k, n + 2) as Key;
                    let d = |x: &F::Node| (F::key(x), F::prio(x), F::out_list(x), F::in_list(x));
                    let via_index = if F::g_contains(&g, k) { Some(d(&F::g_index(&g, k))) } else { None };
                    format!("get {} -> {:?} index {:?}", k, F::g_get(&g, k).map(|x| d(&x)), via_index)
                }
                PStep::GRemove(k) => {
                    let k = pt::idx(*k, n + 1) as Key;
                    let r = F::g_remove(&mut g, k).map(|x| F::key(&x));
                    members.remove(&k);
                    format!("remove {} -> {:?} contains {} get {:?}", k, r, F::g_contains(&g, k), F::g_get(&g, k).map(|x| F::key(&x)))
                }
                PStep::GViews => {
                    let ks = |v: Vec<F::Node>| {
                        let mut k: Vec<Key> = v.iter().map(|x| F::key(x)).collect();
                        k.sort();
                        k
                    };
                    let mut it: Vec<(Key, i32, usize)> = F::g_iter(&g).iter().map(|x| (x.0, F::prio(&x.1), F::out_degree(&x.1))).collect();
                    it.sort();
                    format!("views: to_vec {:?} iter {:?} roots {:?} leaves {:?} orphans {:?}", ks(F::g_to_vec(&g)), it, ks(F::g_roots(&g)), ks(F::g_leaves(&g)), ks(F::g_orphans(&g)))
                }
                PStep::GScc => {
                    if !F::DIRECTED {
                        return "scc: n/a".into();
                    }
                    // precondition of scc(): all neighbours are members
                    let closed = is_closed::<F>(&nodes, &members);
                    if !closed {
                        return "scc: skipped (a neighbour is not a member)".into();
                    }
                    let comps: BTreeSet<BTreeSet<Key>> = F::g_scc(&g).iter().map(|c| c.iter().map(|x| F::key(x)).collect()).collect();
                    format!("scc {:?}", comps)
                }
                PStep::GDot => {
                    let mut lines: Vec<String> = F::g_to_dot(&g).lines().map(|l| l.trim().to_string()).collect();
                    lines.sort();
                    format!("dot {:?}", lines)
                }
                PStep::GDeserDoc(cbor, salt) => {
                    // document = the current nodes and edges as plain tuples, perturbed the way a hand-edited file would be
                    let gc = current_graph::<F>(&nodes);
                    let mut ns: Vec<(Key, i32)> = (0..gc.n).map(|i| (i as Key, gc.prio[i])).collect();
                    let mut es: Vec<(Key, Key, EV)> = gc.edges.clone();
                    match salt % 7 {
                        1 => {
                            // a key declared twice with different values (at the end)
                            let first = ns[0];
                            ns.push((first.0, first.1 + 100));
                        }
                        2 => {
                            let last = *ns.last().unwrap();
                            ns.insert(0, (last.0, last.1 + 100));
                        }
                        3 => es.push((0, 60000, 9)),
                        4 => ns.reverse(),
                        5 => es.reverse(),
                        6 => {
                            let dup = ns.clone();
                            ns.extend(dup.into_iter().map(|(k, v)| (k, v - 7)));
                        }
                        _ => {}
                    }
                    let doc = (ns, es);
                    let back = if *cbor { serde_cbor::to_vec(&doc).map_err(|e| e.to_string()).and_then(|b| F::de_cbor(&b)) } else { serde_json::to_string(&doc).map_err(|e| e.to_string()).and_then(|t| F::de_json(t.as_bytes())) };
                    match back {
                        Err(_) => format!("deser-doc cbor={} salt={} -> Err", cbor, salt % 7),
                        Ok(h) => {
                            let mut ks: Vec<(Key, i32, Vec<(Key, EV)>)> = F::g_iter(&h).iter().map(|(k, x)| (*k, F::prio(x), {
                                let mut l = F::out_list(x);
                                if !F::DIRECTED {
                                    l.sort();
                                }
                                l
                            })).collect();
                            ks.sort();
                            format!("deser-doc cbor={} salt={} -> {:?}", cbor, salt % 7, ks)
                        }
                    }
                }
                PStep::GSerde(cbor) => {
                    // serialising a container with edges to non-members is outside C12/C15 (the result depends on container order)
                    if !is_closed::<F>(&nodes, &members) {
                        return "serde: skipped (a neighbour is not a member)".into();
                    }
                    let closed = true;
                    let doc: Result<(Vec<(Key, i32)>, Vec<(Key, Key, EV)>), String> = if *cbor { F::ser_cbor(&g).and_then(|b| serde_cbor::from_slice(&b).map_err(|e| e.to_string())) } else { F::ser_json(&g).and_then(|s| serde_json::from_str(&s).map_err(|e| e.to_string())) };
                    match doc {
                        Err(e) => format!("serde error {}", e.len().min(1)),
                        Ok((mut ns, es)) => {
                            let back = if *cbor { F::ser_cbor(&g).and_then(|b| F::de_cbor(&b)) } else { F::ser_json(&g).and_then(|s| F::de_json(s.as_bytes())) };
                            let back_desc = match back {
                                Err(_) => "Err".to_string(),
                                Ok(h) => {
                                    let mut ks: Vec<(Key, i32, Vec<(Key, EV)>)> = F::g_iter(&h).iter().map(|(k, x)| (*k, F::prio(x), {
                                        let mut l = F::out_list(x);
                                        if !F::DIRECTED {
                                            l.sort();
                                        }
                                        l
                                    })).collect();
                                    ks.sort();
                                    format!("{:?}", ks)
                                }
                            };
                            format!("serde cbor={} closed={} doc {} back {}", cbor, closed, canon_doc(&mut ns, &es, F::DIRECTED), back_desc)
                        }
                    }
                }
                PStep::LoopMutate(u, mode) => {
                    let u = pt::idx(*u, n);
                    let nd = &nodes[u];
                    let mut yields: Vec<Tri> = vec![];
                    let mut budget = 0;
                    match mode % 5 {
                        3 => {
                            let mut f = |e: &F::Edge| {
                                yields.push(F::tri(e));
                                let _ = F::disconnect(F::e_src(e), F::key(F::e_dst(e)));
                            };
                            let _ = F::search(nd, &SearchCfg { algo: Algo::Bfs, transposed: false, term: Term::Search, target: None }, Meth::ForEach(&mut f));
                        }
                        m => {
                            let kind = if m == 4 && F::DIRECTED { IterKind::In } else { IterKind::Out };
                            F::iterate(nd, kind, &mut |e| {
                                yields.push(F::tri(e));
                                budget += 1;
                                match m {
                                    0 | 4 => {
                                        let _ = F::disconnect(F::e_src(e), F::key(F::e_dst(e)));
                                    }
                                    1 => {
                                        if budget <= 4 {
                                            F::connect(nd, &nodes[(u + budget) % n], 70 + budget as EV);
                                        }
                                    }
                                    _ => {
                                        if budget == 1 {
                                            F::isolate(nd);
                                        }
                                    }
                                }
                                budget < 64
                            });
                        }
                    }
                    format!("loop-mutate {} mode {}: yields {:?} ; state {:?}", u, mode % 5, yields, observe::<F>(&nodes))
                }
                PStep::ConnectViaSearch(a, b, e) => {
                    let (a, b) = (pt::idx(*a, n), pt::idx(*b, n));
                    let found = match F::search(&nodes[a], &SearchCfg { algo: Algo::Bfs, transposed: false, term: Term::Search, target: Some(b as Key) }, Meth::None) {
                        SearchRes::Node(x) => x,
                        _ => None,
                    };
                    match found {
                        None => format!("connect-via-search {} {}: not found", a, b),
                        Some(h) => {
                            F::connect(&h, &nodes[a], *e);
                            format!("connect-via-search {} {}: state {:?}", a, b, observe::<F>(&nodes))
                        }
                    }
                }
            }
        }));
        match r {
            Ok(line) => trace.push(line),
            Err(_) => {
                trace.push("ABNORMAL (panic or self-deadlock)".into());
                classes.push("program.abnormal-step");
                break;
            }
        }
    }
    if let Some(st) = st {
        for c in classes {
            st.class(c);
        }
    }
    trace
}

/// every member that has edges is a primary node and all its neighbours are primary members
fn is_closed<F: Flavour>(nodes: &[F::Node], members: &BTreeMap<Key, bool>) -> bool {
    for (k, nd) in nodes.iter().enumerate() {
        let has_edges = !F::out_list(nd).is_empty() || !F::in_list(nd).is_empty();
        if has_edges && members.get(&(k as Key)) != Some(&true) {
            return false;
        }
    }
    true
}

fn current_graph<F: Flavour>(nodes: &[F::Node]) -> GCase {
    // edge list reconstructed from the out lists (directed) / incidences (undirected, each edge once)
    let n = nodes.len();
    let mut edges = vec![];
    if F::DIRECTED {
        for (u, nd) in nodes.iter().enumerate() {
            for (v, e) in F::out_list(nd) {
                edges.push((u as Key, v, e));
            }
        }
    } else {
        let mut seen: BTreeMap<(Key, Key, EV), usize> = BTreeMap::new();
        for (u, nd) in nodes.iter().enumerate() {
            for (v, e) in F::out_list(nd) {
                let key = ((u as Key).min(v), (u as Key).max(v), e);
                let c = seen.entry(key).or_insert(0);
                *c += 1;
                // every edge shows up twice (once per endpoint, self-loops twice at the same node)
                if *c % 2 == 1 {
                    edges.push((u as Key, v, e));
                }
            }
        }
    }
    GCase { n, prio: nodes.iter().map(|x| F::prio(x)).collect(), edges }
}

fn diff_pair<A: Flavour, B: Flavour>(p: &Prog, st: &mut Stats, counting: bool) -> bool {
    let ta = run_prog::<A>(p, if counting { Some(st) } else { None });
    let tb = run_prog::<B>(p, None);
    if counting {
        st.eval();
        st.class(&format!("pair.{}-{}", A::NAME, B::NAME));
    }
    if ta == tb {
        return true;
    }
    let i = ta.iter().zip(tb.iter()).position(|(x, y)| x != y).unwrap_or(ta.len().min(tb.len()));
    let step = p.steps.get(i);
    let stepname = step.map(|s| format!("{:?}", s).split('(').next().unwrap_or("").to_string()).unwrap_or_else(|| "<length>".into());
    let detail_kind = match step {
        Some(PStep::Search(_, cell, mk, _)) => format!("Search {}", cell.label(&match mk % 5 { 0 => MethSpec::None, 1 => MethSpec::ForEach, 3 => MethSpec::Relax, 4 => MethSpec::FilterNested(Algo::Bfs, 0, Default::default()), _ => MethSpec::Filter(Default::default()) })),
        _ => stepname.clone(),
    };
    let mut pp = p.clone();
    pp.steps.truncate(i + 1);
    st.report(Finding {
        property: "C15".into(),
        flavour: format!("{}/{}", A::NAME, B::NAME),
        clause: "trace.differs".into(),
        signature: format!("{} vs {} | first differing step: {} | trace.differs", A::NAME, B::NAME, detail_kind),
        case: json!({"kind": "program", "pair": A::NAME, "n": pp.n, "prio": pp.prio, "steps": pp.steps}),
        detail: format!("step {}:\n   {}: {}\n   {}: {}", i, A::NAME, trunc(ta.get(i).map(|s| s.as_str()).unwrap_or("<no such step>"), 500), B::NAME, trunc(tb.get(i).map(|s| s.as_str()).unwrap_or("<no such step>"), 500)),
    });
    false
}

pub fn run_both(p: &Prog, st: &mut Stats, counting: bool, only: Option<&str>) -> bool {
    let mut ok = true;
    if counting {
        let mut seen_search = false;
        let mut mut_after_search = false;
        let mut fancy = false;
        for s in &p.steps {
            match s {
                PStep::Search(_, cell, mk, _) => {
                    seen_search = true;
                    if cell.transposed() || mk % 5 >= 2 || matches!(cell, Cell::Search(c) if matches!(c.algo, Algo::PfsMin | Algo::PfsMax)) {
                        fancy = true;
                    }
                }
                PStep::Edge(..) | PStep::ConnectViaSearch(..) | PStep::LoopMutate(..) if seen_search => mut_after_search = true,
                _ => {}
            }
        }
        if mut_after_search && fancy {
            st.nontrivial(p);
        }
    }
    let directed_only = p.steps.iter().any(|s| matches!(s, PStep::Search(_, c, _, _) if c.transposed()));
    if only.map_or(true, |o| o == "digraph") {
        ok &= diff_pair::<Di, SDi>(p, st, counting);
    }
    if !directed_only && only.map_or(true, |o| o == "ungraph") {
        ok &= diff_pair::<Un, SUn>(p, st, counting);
    }
    ok
}

fn cell_strategy() -> impl Strategy<Value = Cell> {
    let algo = prop_oneof![Just(Algo::Bfs), Just(Algo::Dfs), Just(Algo::PfsMin), Just(Algo::PfsMax)];
    let term = prop_oneof![Just(Term::Search), Just(Term::Path), Just(Term::Cycle)];
    prop_oneof![
        3 => (algo, any::<bool>(), term, proptest::option::of(0 as Key..7)).prop_map(|(algo, transposed, term, target)| Cell::Search(SearchCfg { algo, transposed, term, target })),
        1 => (any::<bool>(), any::<bool>(), any::<bool>()).prop_map(|(pre, transposed, nodes)| Cell::Order(OrderCfg { ord: if pre { Ordk::Pre } else { Ordk::Post }, transposed, term: if nodes { OTerm::Nodes } else { OTerm::Edges } })),
    ]
}

fn step_strategy() -> impl Strategy<Value = PStep> {
    let r = || any::<u16>();
    let kind = prop_oneof![4 => Just(OpKind::Connect), 2 => Just(OpKind::TryConnect), 3 => Just(OpKind::Disconnect), 1 => Just(OpKind::Isolate)];
    prop_oneof![
        10 => (kind, r(), r(), 0u32..4).prop_map(|(k, u, v, e)| PStep::Edge(k, u, v, e)),
        2 => (prop_oneof![Just(OpKind::Connect), Just(OpKind::Disconnect), Just(OpKind::TryConnect)], r(), 0u32..4).prop_map(|(k, u, e)| PStep::Edge(k, u, u, e)),
        2 => (r(), r()).prop_map(|(a, b)| PStep::Query(a, b)),
        8 => (r(), cell_strategy(), 0u8..5, 0u8..32).prop_map(|(root, c, mk, salt)| PStep::Search(root, c, mk, salt)),
        1 => (r(), r()).prop_map(|(a, b)| PStep::Compare(a, b)),
        1 => (r(), r()).prop_map(|(a, b)| PStep::CompareEdges(a, b)),
        3 => r().prop_map(PStep::GInsert),
        2 => (r(), 0u8..3).prop_map(|(k, p)| PStep::GInsertNew(k, p)),
        2 => r().prop_map(PStep::GGet),
        1 => r().prop_map(PStep::GRemove),
        1 => Just(PStep::GViews),
        1 => Just(PStep::GScc),
        1 => Just(PStep::GDot),
        1 => any::<bool>().prop_map(PStep::GSerde),
        1 => (any::<bool>(), 0u8..7).prop_map(|(c, s)| PStep::GDeserDoc(c, s)),
        1 => (r(), r(), 0u32..4).prop_map(|(a, b, e)| PStep::ConnectViaSearch(a, b, e)),
        2 => (r(), 0u8..5).prop_map(|(u, m)| PStep::LoopMutate(u, m)),
    ]
}

pub fn prog_strategy(max_len: usize) -> impl Strategy<Value = Prog> {
    (1usize..=7, 1i32..=4).prop_flat_map(move |(n, pr)| (proptest::collection::vec(0..pr, n), proptest::collection::vec(step_strategy(), 1..=max_len)).prop_map(move |(prio, steps)| Prog { n, prio, steps }))
}

pub fn run(ctx: &mut Ctx) {
    ctx.rule = "cases = single-threaded programs over the API common to both members of a pair (edge operations incl. self-loops, queries, every search / cycle search / ordering configuration with none / for_each / pure filter closures, node and edge comparison operators, container insert / remove / get / contains / len / to_vec / iter / roots / leaves / orphans, scc, DOT, serde JSON and CBOR with round trip, connecting through a search-result handle), generated by proptest (1-7 nodes, up to L steps) plus an enumerated family of short programs (every pair of an edge operation and a search cell on a 2-node graph). Oracle: the traces of observations (return values, error variants, abnormal termination, full adjacency state after every mutation, traversal output and closure call sequences as keys and values, container output canonicalised by sorting, serialised form canonicalised up to container order) of digraph vs sync_digraph and ungraph vs sync_ungraph are equal step by step. Non-trivial = program with a mutation after a search and at least one search using transpose, a filter or priorities; distinct = hash of the program.".into();
    ctx.assumptions = vec!["API present in only one member of a pair is excluded: Graph::with_capacity, to_dot_with_attr and sizeof of sync_ungraph; sizeof() values are not compared".into(), "sync flavours run with the lock-point hook; panic and self-deadlock both count as 'abnormal' in the trace".into()];
    let tier = ctx.tier;
    let seed = ctx.seed;
    let wd = ctx.watchdog.clone();
    // enumerated short programs
    let workers = 16usize;
    let enumerated = parallel(workers, |w| {
        let mut st = Stats::new();
        let mut i = 0u64;
        let mut edge_ops = vec![];
        for (u, v) in [(0u16, 0u16), (0, 40000), (40000, 0), (40000, 40000)] {
            for k in [OpKind::Connect, OpKind::TryConnect, OpKind::Disconnect] {
                edge_ops.push(PStep::Edge(k, u, v, 1));
            }
        }
        edge_ops.push(PStep::Edge(OpKind::Isolate, 0, 0, 0));
        edge_ops.push(PStep::Edge(OpKind::Isolate, 40000, 40000, 0));
        let mut cells = vec![];
        for tr in [false, true] {
            for algo in crate::search::ALGOS {
                for term in [Term::Search, Term::Path, Term::Cycle] {
                    for target in [None, Some(1)] {
                        cells.push(Cell::Search(SearchCfg { algo, transposed: tr, term, target }));
                    }
                }
            }
            for ord in [Ordk::Pre, Ordk::Post] {
                for term in [OTerm::Nodes, OTerm::Edges] {
                    cells.push(Cell::Order(OrderCfg { ord, transposed: tr, term }));
                }
            }
        }
        let depth = tier.pick(3usize, 4usize);
        let total = edge_ops.len().pow(depth as u32);
        for code in 0..total {
            i += 1;
            if i % workers as u64 != w as u64 {
                continue;
            }
            wd.tick();
            let mut pre = vec![];
            let mut c = code;
            for _ in 0..depth {
                pre.push(edge_ops[c % edge_ops.len()].clone());
                c /= edge_ops.len();
            }
            // after the mutations: every cell with every closure kind from both roots, then the container observations
            let mut steps = pre.clone();
            for cell in &cells {
                for mk in 0..5u8 {
                    steps.push(PStep::Search(if code % 2 == 0 { 0 } else { 40000 }, cell.clone(), mk, (code % 4) as u8));
                }
            }
            steps.extend([PStep::GInsert(0), PStep::GInsertNew(0, 1), PStep::GInsert(40000), PStep::GGet(0), PStep::GGet(30000), PStep::GViews, PStep::GScc, PStep::GDot, PStep::GSerde(false), PStep::GSerde(true), PStep::GDeserDoc(code % 2 == 0, (code % 7) as u8), PStep::Compare(0, 40000), PStep::CompareEdges(0, 40000), PStep::LoopMutate(0, (code % 5) as u8), PStep::LoopMutate(40000, ((code / 5) % 5) as u8), PStep::Edge(OpKind::Isolate, 0, 0, 0), PStep::GViews]);
            let p = Prog { n: 2, prio: vec![1, 0], steps };
            st.class("programs.enumerated");
            if code == 77 {
                st.sample_kind("enumerated", 1, || json!({"enumerated_program_prefix": pre, "followed_by": "every search/ordering cell x {none, for_each, filter} and the container observations"}));
            }
            run_both(&p, &mut st, true, None);
        }
        st
    });
    ctx.stats.merge(enumerated);
    let cases = tier.pick(15_000u32, 120_000u32);
    let max_len = tier.pick(40usize, 100usize);
    let random = parallel(tier.pick(8, 16), |w| {
        let mut st = Stats::new();
        let cell = std::cell::RefCell::new(&mut st);
        let strat = prog_strategy(max_len);
        let minimal = pt::run(seed, 700 + w as u64, cases, &strat, |p, counting| {
            wd.tick();
            if counting {
                let mut st = cell.borrow_mut();
                if p.steps.len() >= 8 && p.steps.len() <= 14 {
                    st.sample_kind("random", 1, || json!({"random_program": p}));
                }
                st.class("programs.random");
                run_both(p, &mut st, true, None)
            } else {
                let mut scratch = Stats::new();
                run_both(p, &mut scratch, false, None)
            }
        });
        drop(cell);
        if let Some(m) = minimal {
            let mut only = Stats::new();
            run_both(&m, &mut only, false, None);
            for (sig, f) in only.findings {
                st.findings.insert(sig, f);
            }
        }
        st
    });
    ctx.stats.merge(random);
    // API surface that needs trait impls on the library's types (ordering of edges, heaps, sorting):
    // the same generated program must compile and print the same with either member of a pair
    crate::progs::c15_api_programs(ctx);
}

pub fn replay(v: &Value, st: &mut Stats) -> Result<(), String> {
    let p: Prog = serde_json::from_value(json!({"n": v["n"], "prio": v["prio"], "steps": v["steps"]})).map_err(|e| e.to_string())?;
    if p.n == 0 || p.prio.len() != p.n {
        return Err("malformed program".into());
    }
    run_both(&p, st, true, v["pair"].as_str());
    st.sample(|| json!({"replayed": p}));
    Ok(())
}
