pub mod ctx;
pub mod flavour;
pub mod hist;
pub mod hook;
pub mod model;
pub mod pt;
pub mod types;
