#!/bin/bash
# ./check.sh <ID> <quick|thorough> [--replay <file>]
# Rebuilds the harness against /repo's current working tree (hooks on via
# harness/.cargo/config.toml) and runs the check.
# exit 0 = held / only known findings, 1 = VIOLATION, 2 = cannot decide.
set -u
export CARGO_NET_OFFLINE=true
HERE="$(cd "$(dirname "$0")" && pwd)"
cd "$HERE/harness" || exit 2
LOG="$HERE/out/build.log"
mkdir -p "$HERE/out" "$HERE/evidence"
# serialise concurrent builds (cargo has its own lock; this keeps logs apart)
if ! cargo build --release --offline >"$LOG.$$" 2>&1; then
  echo "CANNOT-DECIDE property=${1:-?} harness does not build against /repo's working tree"
  grep -E "^error" -A 12 "$LOG.$$" | head -60
  rm -f "$LOG.$$"
  exit 2
fi
rm -f "$LOG.$$"
# C13 also drives a libFuzzer target (harness/fuzz): quick uses the dev profile
# (rebuilds in seconds after a source change), thorough the optimised build.
if [ "${1:-}" = "C13" ] && [ "${3:-}" != "--replay" ]; then
  PROFILE="--dev"; [ "${2:-quick}" = "thorough" ] && PROFILE="--release"
  if ! (cd "$HERE/harness/fuzz" && RUSTFLAGS="--cfg gdsl_verif" cargo +nightly fuzz build $PROFILE deser >"$LOG.fuzz.$$" 2>&1); then
    echo "note: fuzz target did not build (the check reports this as inconclusive)"; tail -5 "$LOG.fuzz.$$"
  fi
  rm -f "$LOG.fuzz.$$"
fi
# thorough tier of the properties served by the `ops` target: auxiliary coverage-guided campaign
case "${1:-}" in C01|C02|C03|C04|C05|C06|C07|C08|C09|C10|C18|C19|C20)
  if [ "${2:-quick}" = "thorough" ] && [ "${3:-}" != "--replay" ]; then
    if ! (cd "$HERE/harness/fuzz" && RUSTFLAGS="--cfg gdsl_verif" cargo +nightly fuzz build --release ops >"$LOG.fuzz.$$" 2>&1); then
      echo "note: fuzz target ops did not build (the check reports this as inconclusive)"; tail -5 "$LOG.fuzz.$$"
    fi
    rm -f "$LOG.fuzz.$$"
  fi;;
esac
cd "$HERE" || exit 2
exec "$HERE/harness/target/release/gv" "$@"
