#!/bin/bash
# tools/try_mutant.sh <patch.diff> <tier> <ID> [<ID>...]  -- applies the patch to /repo, runs the checks, reverts.
set -u
PATCH="$1"; TIER="$2"; shift 2
cd /repo || exit 2
if [ -n "$(git status --porcelain)" ]; then echo "/repo not clean"; exit 2; fi
git apply "$PATCH" || { echo "patch does not apply"; exit 2; }
trap 'cd /repo && git checkout -- . && git clean -fdq -e target' EXIT
cd /verif
for id in "$@"; do
  out=$(./check.sh "$id" "$TIER" 2>&1); rc=$?
  nv=$(echo "$out" | grep -c '^VIOLATION')
  echo "== $id $TIER rc=$rc violations_printed=$nv :: $(echo "$out" | grep -m1 'clause=' | head -c 200)"
  echo "$out" | tail -1
done
