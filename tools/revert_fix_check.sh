#!/bin/bash
# tools/revert_fix_check.sh <fix-commit> <ID>...  : temporarily un-does one fix: commit in /repo's working tree, runs the checks, restores.
set -u
C="$1"; shift
cd /repo || exit 2
[ -n "$(git status --porcelain)" ] && { echo "/repo not clean"; exit 2; }
git diff "$C^" "$C" > /tmp/revfix.diff
git apply -R /tmp/revfix.diff || { echo "cannot reverse-apply $C"; exit 2; }
trap 'cd /repo && git checkout -- . ' EXIT
cd /verif
for id in "$@"; do
  out=$(timeout 1200 ./check.sh "$id" quick 2>&1); rc=$?
  echo "== without $C: $id rc=$rc :: $(echo "$out" | grep -m1 'clause=' | head -c 160)"
done
