#!/usr/bin/env python3
"""Lists node-lock acquisitions in the sync flavours that are not preceded by a lock_point hook line."""
import re, sys, glob
missing = 0; total = 0
for f in sorted(glob.glob("/repo/src/sync_*/**/*.rs", recursive=True)):
    lines = open(f).read().split("\n")
    for i, l in enumerate(lines):
        if re.search(r"\.(read|write|try_read|try_write)\(\)", l) and not l.strip().startswith("//"):
            total += 1
            back = "\n".join(lines[max(0, i - 8):i])
            if "lock_point" not in back:
                missing += 1
                print(f"UNHOOKED {f}:{i+1}: {l.strip()[:90]}")
print(f"{total} acquisitions, {missing} without lock_point")
sys.exit(1 if missing else 0)
