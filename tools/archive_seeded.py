#!/usr/bin/env python3
"""Copies confirmed seeded changes into /verif/seeded/<id>/ and records which checks catch them (quick tier)."""
import json, os, re, shutil, subprocess, sys, glob
related = {  # additional checks worth running besides the property the change was written for
 "C01": ["C03"], "C02": ["C03"], "C03": ["C01", "C02"], "C04": ["C07"], "C05": ["C07"], "C06": ["C07"], "C07": [], "C08": ["C03"], "C09": [], "C10": ["C07"],
 "C11": [], "C12": ["C15"], "C13": [], "C14": [], "C15": ["C18"], "C16": [], "C17": [], "C18": ["C15"], "C19": [], "C20": [],
}
MISSED = {
 "C03-4": "missed by the quick tier as it stood (adjacency lists never exceeded ~40 entries); caught after the long-adjacency-list family (hub with 9..1100 edges, try_connect against an edge in one direction only) was added",
 "C04-4": "missed (no constructed graph made a node re-discoverable from the same level beyond 256 discovered nodes with a target below it); caught after the fan family with targets around powers of two was added",
 "C07-4": "missed (all key types hashed injectively); caught after the payload programs got a key type with colliding Hash / non-injective Display",
 "C12-4": "missed (all key types hashed injectively); caught after the payload programs got a key type with colliding Hash / non-injective Display",
 "C13-4": "missed (Display of every key type was injective); caught after the payload programs got a Deser step and the colliding key type",
 "C18-4": "missed (the harness always kept its own handle to every inserted node); caught after the container-is-sole-owner scenario and the 'container calls never change edge lists' oracle were added",
 "C19-4": "missed (no node had 256 outgoing edges); caught after ConnectBurst and the wide-adjacency-list drop-order cases were added",
 "C20-4": "missed (loops were driven by next()/for only); caught after loops through std adapters (map/take_while/collect/unzip) and size_hint probing were added",
 "C17-4": "caught at once, through the serialisability clause; the clause the author aimed at (reader panics when a neighbour is released) is now also reached by the isolate+release free-running pairs",
 "C10-4": "caught at once",
 "C01-4": "not a C01 violation in any sequential history (C01 quantifies over sequences of calls; the change only misbehaves when two threads disconnect into the same target concurrently); the C01 check is silent by design and the C17 check reports it (quiescent.mirror-or-symmetry-broken) in the quick tier",
 "C02-4": "caught at once (observe.into-iter: `for e in &node` cross-checked against iter())",
 "C05-4": "missed (no filter closure ran a search of its own); caught after filters that run a nested search ('target can still reach k') were added to all search checks",
 "C09-4": "missed (same reason as C05-4); caught after nested-search filters were added",
 "C06-4": "missed (every node value type had PartialOrd == Ord); caught after the payload programs got a Score(f64) value type (IEEE PartialOrd, total-order Ord) and a direct node comparison step",
 "C08-4": "missed (node values never changed during a search and the reversed-graph comparison was evidence only); caught after the Dijkstra-style relaxing for_each closure was added and 'differs from the same operation on the reversed graph' became a violation",
 "C11-4": "missed (deepest scc input had 300 nodes); caught after chains / chains of 2-cycles / chains with back edges of 2100-12000 nodes (65000 thorough) were added on a large-stack thread",
 "C14-4": "missed (value expressions were literals or plain calls); caught after value expressions with a guard temporary (`cell.borrow_mut().take(v)`) were generated",
 "C15-4": "missed (node values never changed during a search); caught after the relaxing for_each closure was added to the differential programs",
 "C16-4": "caught at once (per-position Sync-but-not-Send witness in the edge value)",
 "C04-5": "missed (transpose() was a 0-or-1 option); caught after two of the six builder-option orders apply the closure-free options twice",
 "C07-5": "missed (same as C04-5); caught after closure-free options are applied twice in some orders",
 "C10-5": "missed (options were always applied in the order min/max, target, transpose, closure); caught after the options are applied in one of six orders chosen by a hash of the case",
 "C13-5": "missed (keys were integers or short ASCII strings); caught after the payload programs got 40+ byte keys of 3-byte characters behind 0-3 ASCII bytes",
 "C19-5": "missed by the quick tier (largest adjacency list 300; the thorough tier had 2100); caught after the quick sizes of the cheap long-list families were raised to 4097",
 "C12-5": "caught at once (wire.edge-list on the CBOR document)",
 "C17-5": "caught at once (lock-discipline probe: re-entrant read in find_inbound, confirmed by the focused stress as free-running.deadlock)",
 "C18-5": "caught at once (dot.edge-attributes)",
 "C20-5": "caught at once (yield.edge-does-not-exist-now for `for e in &node`)",
 "C01-5": "missed (no parallel edges with different values on both sides of a > 4096 burst); caught after the long-list family got one edge before and one after the burst between the hub and a third node, followed by disconnect / connect / disconnect",
 "C02-5": "caught at once by the long-list family raised to 4100 entries in round 5 (symmetry.self-loop-odd / disconnect.not-exactly-one-edge-removed)",
 "C05-5": "missed twice: first because the deepest chain was 5000 nodes (raised to 20 000), then because the judge returned after the callback clause (the closure was handed a wrongly oriented edge, a C07 clause) without judging the returned path; the result is now judged independently of what the closure saw",
 "C06-5": "missed (paths were read through next(), to_vec, first/last and Index only); caught after every path iterator and node iterator is driven through nth / skip / step_by / last / count / size_hint and compared with the next() sequence",
 "C08-5": "missed by C08 itself (largest in-degree 1100), caught by C01/C03 through the 4100-entry in-lists (prelude.state-differs-from-model); C08 now has a wide hub (in- and out-degree 4199)",
 "C09-5": "missed (search_cycle was never preceded by target()); caught after cycle cells also run with a target, which the call must ignore",
 "C11-5": "missed by the quick tier (deepest scc input 12 000; the thorough tier had 33 000 and 65 000); caught after the quick sizes were raised to 20 000 and 40 000",
 "C14-5": "missed (two adjacent identical entries were too rare); caught after 12% of the generated edge entries repeat the previous entry verbatim",
 "C15-5": "missed (programs only deserialised what they had serialised); caught after programs deserialise hand-made documents derived from the current graph (a key declared twice, an undeclared key, reordered lists) on both members of a pair",
 "C01-6": "missed (largest hub 4100 entries per direction; bulk path from 8192); caught after the quick sizes went to 8200 and the hub is isolated while a neighbour is linked in both directions",
 "C02-6": "missed (swap_remove from 8192 entries); caught after the quick sizes went to 8200",
 "C03-6": "missed, then INCONCLUSIVE: with 8200-entry lists the allowed-successor check of disconnect (every pair of candidate entries, each with a list copy) made a failing case take minutes, so the watchdog reported exit 2 instead of the violation; the check is linear now (`minus_one`) and the change is reported",
 "C04-6": "caught once the 70 000-node chain ran for bfs (path.start)",
 "C05-6": "missed (a builder was asked at most twice); caught after the same builder is asked four times on g0, g, g0, g (an edge added, removed, added)",
 "C06-6": "missed (same as C05-6); caught by the four-call reuse",
 "C07-6": "missed (Dfs::search with a closure never ran as a complete traversal on a chain deeper than 65537); caught after the 70 000-node ring runs search() without a target for the closure properties",
 "C08-6": "missed (no transposed ordering expanded more than 65536 nodes); caught after C08 got a 70 000-node hub on which orderings are compared with the same ordering on the reversed graph",
 "C09-6": "missed (the deep chain had a short cut back to the root, so a cycle was still found); caught after the deep chain became a plain ring of 70 000 nodes",
 "C10-6": "missed (same as C05-6); caught by the four-call reuse",
 "C11-6": "missed (a 70 000-node chain is entered at a random member, so the traversal is ~35 000 deep on average); caught after the ring-with-sinks shape (every entry point gives a 70 000-deep traversal, two sink components below it)",
 "C12-6": "missed (containers were serialised right after being filled); caught after some instances remove and re-insert a member and insert and remove a stranger before serialising",
 "C13-6": "missed (longest keys 46 bytes); caught after the payload programs got keys of more than a thousand bytes of 3-byte characters",
 "C14-6": "missed (value expressions named nothing but their own helpers); caught after value expressions name caller-side items (std::cmp::Ordering and caller types called Bfs, Dfs, Pfs, Order, Path, Method, Transposition, Adjacent): the generated program no longer compiles",
 "C15-6": "missed (edges were only compared with edges of the same graph); caught after edges are compared with an edge built from fresh nodes with the same keys",
 "C16-6": "caught at once",
 "C17-6": "caught at once (sizeof is among the accessors of the lock-discipline probe)",
 "C18-6": "caught at once (dot.edge-statements: edges to non-members)",
 "C19-6": "caught by the sizes raised for C19-5 / C01-6 (8193 entries)",
 "C20-6": "caught at once (loops through adapters: collect/unzip go through fold)",
 "C16-5": "missed (Path cannot be named, so it was not probed); caught after Path and its iterators are probed on values obtained from a real search",
}
def run(patch, props):
    out = subprocess.run(["/verif/tools/try_mutant.sh", patch, "quick"] + props, capture_output=True, text=True, timeout=3600).stdout
    res = {}
    for l in out.splitlines():
        m = re.match(r"== (C\d+) quick rc=(\d+) violations_printed=(\d+) ::\s*(.*)", l)
        if m:
            res[m.group(1)] = {"exit": int(m.group(2)), "first_violation": m.group(4).strip()}
    return res
for d in sorted(glob.glob("/tmp/seeded-out/*/")):
    name = os.path.basename(d.rstrip("/"))
    prop = name.split("-")[0]
    dst = f"/verif/seeded/{name}"
    if os.path.exists(f"{dst}/meta.json"): continue
    if not os.path.exists(f"{d}/confirm.json") or os.path.exists(f"{d}/REJECTED"): continue
    conf = json.load(open(f"{d}/confirm.json"))
    if not all(v for k, v in conf.items() if k != "candidate"): continue
    os.makedirs(dst, exist_ok=True)
    for f in ["patch.diff", "demo.rs", "notes.md"]:
        shutil.copy(f"{d}/{f}", f"{dst}/{f}")
    res = run(f"{dst}/patch.diff", [prop] + (related.get(prop, []) if os.environ.get("WITH_RELATED") else []))
    notes = open(f"{d}/notes.md").read()
    meta = {
        "id": name, "breaks_property": prop, "origin": "independent sub-agent given only the property text and a scratch worktree" + (" (second round: asked to be invisible on graphs with fewer than 5 nodes and histories of fewer than 6 operations)" if name.endswith("-3") else " (later round: asked for a change that a strong randomized / small-scope harness with integer payloads, graphs up to 40-1100 nodes and long histories would still miss)" if name.endswith("-4") or name.endswith("-5") else " (seventh round: told the harness has integer and string payloads, 8000-entry adjacency lists, 70000-node chains, long histories, builder reuse, iterator adapters, in-callback mutation and nested searches in filters, and asked for a realistic change it would still miss)" if name.endswith("-7") else ""),
        "origin_short": "sub-agent, round 7" if name.endswith("-7") else "sub-agent, round 6" if name.endswith("-6") else "sub-agent, round 2" if name.endswith("-3") else "sub-agent, round 3+" if name.endswith("-4") or name.endswith("-5") else "sub-agent, round 1",
        "missed_at_first": MISSED.get(name),
        "needs_to_manifest": "see notes.md (written by the author of the change)",
        "confirmed_by_me": {"how": "tools/confirm_seeded.sh in a scratch worktree of /repo: git apply; cargo test --offline --no-fail-fast (80 tests + 118 doctests) with tests/seeded_demo.rs added; then without the patch", **conf},
        "checks_run": {k: ("CAUGHT (exit 1)" if v["exit"] == 1 else "not flagged (exit %d)" % v["exit"]) + (": " + v["first_violation"] if v["first_violation"] else "") for k, v in res.items()},
        "caught_by_own_property_check_quick": res.get(prop, {}).get("exit") == 1,
    }
    json.dump(meta, open(f"{dst}/meta.json", "w"), indent=1)
    print(name, meta["checks_run"], flush=True)
