#!/bin/bash
# tools/try_mutant_scratch.sh <patch.diff> <tier> <ID> [<ID>...]
# Development aid: like try_mutant.sh but without touching /repo (usable while a long run is using /repo):
# the patch is applied in a scratch worktree of /repo, and a scratch copy of /verif whose "/repo" paths point at
# that worktree is built and run. Verdicts recorded in seeded/*/meta.json come from try_mutant.sh, not from here.
PATCH="$1"; TIER="$2"; shift 2
WT=/tmp/wt/mut; HS=/tmp/hs/verif
git -C /repo worktree remove --force $WT 2>/dev/null
git -C /repo worktree add -q --detach $WT HEAD || exit 2
trap 'git -C /repo worktree remove --force $WT 2>/dev/null' EXIT
( cd $WT && git apply "$PATCH" ) || { echo "patch does not apply"; exit 2; }
mkdir -p $HS
rsync -a --delete --exclude harness/target --exclude out --exclude .git --exclude evidence /verif/ $HS/
mkdir -p $HS/evidence
sed -i "s#/repo#$WT#g" $HS/harness/Cargo.toml $HS/harness/src/progs.rs $HS/harness/src/c17.rs
( cd $HS/harness && CARGO_NET_OFFLINE=true cargo build --release --offline 2>&1 | grep -E "^error" -A 12 | head -30 )
for id in "$@"; do
  out=$(cd $HS && VERIF_ROOT=$HS timeout 3h ./harness/target/release/gv $id $TIER 2>&1); rc=$?
  echo "== $id $TIER rc=$rc violations_printed=$(echo "$out" | grep -c '^VIOLATION') :: $(echo "$out" | grep -E 'clause=' | head -1)"
  echo "$out" | grep -E "^$id |INCONCLUSIVE|CANNOT" | tail -2
done
