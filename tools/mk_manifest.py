#!/usr/bin/env python3
"""Regenerates /verif/MANIFEST.json from the table below and validates it."""
import json, subprocess, sys, os
ROOT = os.path.dirname(os.path.dirname(os.path.abspath(__file__)))
ALL = ["C%02d" % i for i in range(1, 21)]

def repo_commits(prefix):
    out = subprocess.run(["git", "-C", "/repo", "log", "--format=%h %s"], capture_output=True, text=True).stdout
    return [l.split()[0] for l in out.splitlines() if l.split(" ", 1)[1].startswith(prefix)]

CHECKS = {
 "C01": dict(engine="hist", technique="model-based stateful PBT: small-scope enumeration of (state, op) pairs + proptest histories with shrinking; invariant oracle after every step",
   text="Every (observed abstract state, operation, operands) pair with <=3 nodes / bounded live edges / 2 edge values is executed on real directed nodes (plain and sync) and thousands of proptest-generated histories on 2-8 nodes are run; after every step the mirror invariant (per ordered pair: out-value sequence == in-value sequence) and all redundant observations (degrees, root/leaf/orphan, is_connected, find_outbound/inbound incl. handle identity, for-loop iteration) are compared. Exhaustive inside the bound, sampled beyond; no proof.",
   note="Trusted: the edge iterators as primary observation (cross-checked against every other accessor each step); harness interpreter. Sync flavour single-threaded with lock-point hook.", ref="4.C01"),
 "C02": dict(engine="hist", technique="model-based stateful PBT: small-scope enumeration + proptest histories; symmetry invariant oracle after every step",
   text="Same generators as C01 on the two undirected flavours; after every step: per unordered pair and value equal incidence counts at both endpoints, self-loops counted twice, degree/is_orphan/is_connected/find_adjacent agree with the lists from both ends.",
   note="Trusted: iter() as primary observation (cross-checked each step).", ref="4.C01"),
 "C03": dict(engine="hist", technique="model-based stateful PBT: step-relation oracle with allowed-successor sets, handle-provenance generator, hook-detected self-deadlock",
   text="All four flavours. Each executed call is checked against the multigraph contract as a relation between the observed state before and after (connect appends exactly one entry per endpoint and keeps order; try_connect fails iff the caller already lists the peer and then changes nothing; disconnect removes exactly one edge of the pair carrying the returned value, any of the parallel ones; isolate removes exactly the incident edges), never panics, never self-deadlocks, and operands reached through clone / Graph::get / Graph[..] / edge endpoint / find_* / search / path handles are the same allocation and behave identically.",
   note="Trusted: observation via iterators; lock-point hook covers all 32 acquisition sites (checked by tools/hook_coverage.py).", ref="4.C03"),
}

NOT_YET = "check not implemented yet in this commit (work in progress; see DESIGN.md section 4)"

def main():
    checks = []
    for pid in ALL:
        if pid not in CHECKS: continue
        c = CHECKS[pid]
        checks.append({
            "property_id": pid,
            "quick_cmd": f"./check.sh {pid} quick",
            "thorough_cmd": f"./check.sh {pid} thorough",
            "evidence_file": f"/verif/evidence/{pid}.json",
            "replay_cmd_template": f"./check.sh {pid} quick --replay {{path}}",
            "engine": c["engine"],
            "level_claimed": {"category": c.get("category", "exploration"), "text": c["text"], "design_ref": "DESIGN.md section " + c["ref"]},
            "level_note": c["note"],
            "technique": c["technique"],
        })
    hook_commits = repo_commits("verif hook")
    m = {
        "version": 1,
        "setup_cmd": "./setup.sh",
        "hooks": {
            "guard": "gdsl_verif",
            "enable": "RUSTFLAGS='--cfg gdsl_verif' (set in /verif/harness/.cargo/config.toml [build] rustflags; the harness depends on gdsl by path = /repo)",
            "baseline_off_cmd": "cd /repo && cargo test --workspace --no-fail-fast --offline",
            "source_commits": hook_commits,
            "add_only": True,
        },
        "engines": [
            {"name": "hist", "path": "/verif/harness/src/hist.rs", "serves_properties": ["C01", "C02", "C03"], "kind_free_text": "proptest TestRunner + breadth-first enumerator of observed abstract states; step relation / invariant oracles in model.rs"},
        ],
        "checks": checks,
        "notes": "All checks: property-based testing / small-scope enumeration / fuzzing against explicit oracles (see DESIGN.md). exit 0 held, 1 VIOLATION, 2 cannot decide. Seeds from VERIF_SEED.",
        "not_applicable": [{"property_id": p, "reason": NOT_YET} for p in ALL if p not in CHECKS],
    }
    path = os.path.join(ROOT, "MANIFEST.json")
    json.dump(m, open(path, "w"), indent=1)
    try:
        import jsonschema
        jsonschema.validate(m, json.load(open("/root/.vp/MANIFEST.schema.json")))
        print("MANIFEST.json valid;", len(checks), "checks")
    except ImportError:
        print("jsonschema not available; not validated")

if __name__ == "__main__":
    main()
