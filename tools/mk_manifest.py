#!/usr/bin/env python3
"""Regenerates /verif/MANIFEST.json from the table below and validates it."""
import json, subprocess, sys, os
ROOT = os.path.dirname(os.path.dirname(os.path.abspath(__file__)))
ALL = ["C%02d" % i for i in range(1, 21)]

def repo_commits(prefix):
    out = subprocess.run(["git", "-C", "/repo", "log", "--format=%h %s"], capture_output=True, text=True).stdout
    return [l.split()[0] for l in out.splitlines() if l.split(" ", 1)[1].startswith(prefix)]

CHECKS = {
 "C01": dict(engine="hist", technique="model-based stateful PBT: small-scope enumeration of (state, op) pairs + proptest histories with shrinking; invariant oracle after every step",
   text="Every (observed abstract state, operation, operands) pair with <=3 nodes / bounded live edges / 2 edge values is executed on real directed nodes (plain and sync) and thousands of proptest-generated histories on 2-8 nodes are run; after every step the mirror invariant (per ordered pair: out-value sequence == in-value sequence) and all redundant observations (degrees, root/leaf/orphan, is_connected, find_outbound/inbound incl. handle identity, for-loop iteration) are compared. Exhaustive inside the bound, sampled beyond; no proof.",
   note="Trusted: the edge iterators as primary observation (cross-checked against every other accessor each step); harness interpreter. Sync flavour single-threaded with lock-point hook.", ref="4.C01"),
 "C02": dict(engine="hist", technique="model-based stateful PBT: small-scope enumeration + proptest histories; symmetry invariant oracle after every step",
   text="Same generators as C01 on the two undirected flavours; after every step: per unordered pair and value equal incidence counts at both endpoints, self-loops counted twice, degree/is_orphan/is_connected/find_adjacent agree with the lists from both ends.",
   note="Trusted: iter() as primary observation (cross-checked each step).", ref="4.C01"),
 "C03": dict(engine="hist", technique="model-based stateful PBT: step-relation oracle with allowed-successor sets, handle-provenance generator, hook-detected self-deadlock",
   text="All four flavours. Each executed call is checked against the multigraph contract as a relation between the observed state before and after (connect appends exactly one entry per endpoint and keeps order; try_connect fails iff the caller already lists the peer and then changes nothing; disconnect removes exactly one edge of the pair carrying the returned value, any of the parallel ones; isolate removes exactly the incident edges), never panics, never self-deadlocks, and operands reached through clone / Graph::get / Graph[..] / edge endpoint / find_* / search / path handles are the same allocation and behave identically.",
   note="Trusted: observation via iterators; lock-point hook covers all 32 acquisition sites (checked by tools/hook_coverage.py).", ref="4.C03"),
}


def S(engine, technique, text, note, ref, category="exploration"):
    return dict(engine=engine, technique=technique, text=text, note=note, ref=ref, category=category)

SEARCH_NOTE = "Trusted: graphs are built with connect() (C01-C03 establish that lists then match the model); the plain-data model algorithms (BFS distances, reachability, DFS-order deciders), which the thorough tier re-validates against brute-force enumeration of all DFS runs; closure call budget 4|E|+16 turns non-termination into an observation."
CHECKS.update({
 "C04": S("search", "PBT with validity-predicate oracle (reachability + shortest-path length from a reference BFS), small-scope enumeration + constructed two-path family + proptest graphs",
   "All ordered multigraphs on <=4 nodes (bounded edges) x all roots x all targets (incl. an absent key) x {no closure, for_each, every single-edge filter}, a constructed family with two root->target paths of different length in every insertion order, and proptest graphs up to 40 nodes with model-guided root/target and random rejected-edge sets; bfs search and search_path (also transposed), four flavours. Result exists iff target reachable through accepted edges; path starts at root, ends at target, joins, uses stored accepted edges with their values, and its length equals the reference BFS distance; search returns the target's own allocation.", SEARCH_NOTE, "4.C04"),
 "C05": S("search", "PBT with validity-predicate oracle (reachability, simple path), same generators as C04",
   "Same generators as C04 for dfs search / search_path: result iff reachable in the accepted graph; valid joined path of stored accepted edges, no node twice.", SEARCH_NOTE, "4.C05"),
 "C06": S("search", "PBT: invariant over the closure call sequence (priority order of expansions) + validity of paths + exhaustive comparison-operator table",
   "pfs min/max, four flavours: expansion order reconstructed from the for_each/filter call sequence — when a node starts expanding no discovered, unexpanded node with edges has a strictly smaller (max: larger) value, no node expanded twice; target searches return a valid accepted path iff reachable. Small graphs x ALL priority assignments from {0,1,2}^n enumerated; ties frequent in random graphs. Node ==/!=/cmp/partial_cmp/<,<=,>,>= checked on all pairs of (key,value) combinations incl. i32 extremes.", SEARCH_NOTE, "4.C06"),
 "C07": S("search", "PBT: multiset equality between closure calls and model edge set; exhaustive rejected-edge subsets",
   "Every search kind and ordering, with and without target, four flavours: for complete traversals the multiset of (source,target,value) handed to for_each equals the multiset of stored edges leaving model-reachable nodes (undirected: once per endpoint); partial traversals are sub-multisets; every call is a stored edge in traversal orientation. Filters: small graphs x ALL 2^m rejected subsets — no rejected edge in any path, cycle, ordering or search_edges result and found/reached iff so in the accepted graph.", SEARCH_NOTE, "4.C07"),
 "C08": S("search", "PBT: validity on the reversed model + metamorphic re-run on the physically reversed graph",
   "Directed flavours, all 20+8 configuration cells with transpose(): every validity oracle of C04-C07/C09/C10 is evaluated on the edge-reversed model; a failure counts for C08 only if the same cell WITHOUT transpose() on the physically reversed graph (same insertion order) is free of that clause, so a general traversal bug is not blamed on transpose(). Untransposed runs must never report an edge that is only stored in the opposite direction. The exact-equality metamorphic relation G.transpose() == reverse(G) is counted as evidence.", SEARCH_NOTE, "4.C08"),
 "C09": S("search", "PBT with validity-predicate oracle for cycles (existence via reference search, simple-cycle / closed-walk predicate, bfs minimality)",
   "search_cycle of bfs/dfs/pfs-min/pfs-max (transposed too), four flavours: Some iff the model has a closed walk root->root of >=1 accepted edges; result starts and ends at root, joins, stored accepted edges; directed: no edge used more often than stored, no intermediate node twice, bfs length = shortest cycle through root.", SEARCH_NOTE, "4.C09"),
 "C10": S("search", "PBT with exact decision procedures 'some DFS discovers / finishes in this order' (backtracking decider validated against brute force)",
   "preorder/postorder (directed, also transposed) and order().pre()/.post() (undirected), search_nodes and search_edges, with filters: node set = accepted-reachable set exactly once; preorder decided by stack simulation, postorder by a backtracking decider (white-path theorem); root first/last; the edge-order corollary checked independently; search_edges = one stored accepted edge per non-root node, targets in a valid order, sources forming a tree.", SEARCH_NOTE + " The deciders are cross-checked in the thorough tier against enumeration of all DFS runs (all digraphs <=3 nodes + 600 random 4-6 node digraphs, every permutation).", "4.C10"),
 "C11": S("container", "PBT + exhaustive enumeration against a reference SCC (pairwise reachability), several container instances per graph",
   "All 2^(n*n) digraphs with self-loops on <=4 nodes and proptest graphs up to 30 nodes with planted components, each on several fresh containers (own hash keys) with different insertion orders, plain and sync: scc() must be a partition of the members equal, as a set of sets, to the pairwise-reachability components.", "Trusted: reference SCC (cross-checked against Tarjan in the thorough tier). Container iteration order cannot be seeded; it is sampled and the number of distinct orders seen is reported.", "4.C11"),
 "C12": S("container", "round-trip PBT (serialise -> deserialise -> compare with model) + wire-shape oracle on the untyped document",
   "Four container types x JSON and CBOR: every ordered multigraph on <=3 nodes (bounded edges; distinct and repeated edge values) and proptest graphs up to 40 nodes, two container instances each: same keys and node values; directed: identical out-edge sequence per node and in-multisets; undirected: identical incident-edge multisets and degrees; mirror/symmetry invariants on the result; the document parsed as untyped value is a 2-tuple listing exactly the members and exactly one entry per edge; the original is unchanged.", "Trusted: serde_json / serde_cbor as the two wire formats.", "4.C12"),
 "C13": S("deser", "coverage-guided fuzzing (libFuzzer + ASan, oracle inside the target) + structural-mutation PBT against a typed reference parse",
   "Documents = value-level and byte-level mutations of valid documents (proptest), ~130 enumerated synthetic documents and a libFuzzer campaign from a committed seed corpus, on four flavours x JSON/CBOR. Never panics; Err always acceptable; Ok(g) must be structurally sound (members keyed consistently, every edge ends at a member, mirror/symmetry); when serde's own (Vec<(K,N)>,Vec<(K,K,E)>) accepts the document an edge naming an undeclared key must have produced Err and g's nodes/values/edges must come from the document.", "Trusted: serde's tuple/Vec impls as the definition of what a document declares. libFuzzer campaigns are approximately reproducible; saved inputs are exactly reproducible. Quick tier uses the dev-profile fuzz build.", "4.C13"),
 "C14": S("progs", "generated-program PBT: macro invocations drawn from proptest strategies, compiled against the working tree, output compared with the generator's denotation",
   "400+ invocations per batch of the four graph macros in all four signature forms (u32 / &str keys, rotated node order => forward references, omitted / empty edge lists, self-loops, repeated edges, values as calls), the empty form and both arities of *_node!/*_connect!, with the expected container type ascribed; 15% ill-formed invocations must panic naming the unlisted key.", "Trusted: rustc/macro expansion; no shrinking of program cases (each step would cost a compilation).", "4.C14"),
 "C15": S("c15", "differential PBT: identical generated programs on plain vs sync flavour, traces compared step by step",
   "Programs over the common API (edge ops, queries, all search/ordering cells with none/for_each/filter closures, comparison operators on nodes and edges, container calls incl. duplicate-key inserts, scc, DOT, serde JSON/CBOR, connecting through search-result handles): enumerated short programs on 2 nodes and proptest programs on 1-7 nodes; the observation traces of digraph vs sync_digraph and ungraph vs sync_ungraph must be equal.", "API present in only one member of a pair is excluded (with_capacity; to_dot_with_attr/sizeof of sync_ungraph); panic and self-deadlock both count as 'abnormal'.", "4.C15"),
 "C16": S("progs", "generated-program PBT: run-time readable auto-trait probes over an exhaustive leaf matrix and random nested payload types, oracle = executable model of the std auto-trait rules",
   "All 125 (K,N,E) triples over {Send+Sync, Send-only, Sync-only, neither x2} and random nested type expressions, for Node/Edge/Graph/iterators of all four modules: sync types Send <=> Sync <=> all payloads Send+Sync, plain types never; plus one generic positive obligation discharged by the compiler for ALL Send+Sync payloads and a real cross-thread use.", "Trusted: rustc's trait solver. The universally quantified negative half is covered by the leaf x position matrix and random witnesses only.", "4.C16"),
 "C17": S("c17", "schedule enumeration by a harness-owned deterministic scheduler (lock-point hook) with a serialisability oracle; free-running real-thread stress with progress-based stall detection; single-thread re-entrant-read probe",
   "2 threads x 1 call: every pair of call shapes sharing a node x 8 initial edge sets, ALL lock-acquisition interleavings (DFS over choice prefixes, capped per scenario and the cap reported); thorough adds all pairs, 2x2 and 3x1 scenarios free of listed known-bad pairs, random schedules. Every execution: no deadlock, panic or poisoned lock; final state + return values equal some sequential order (allowed-successor semantics); invariants at quiescence. Known findings (D15: two mutating calls on the same node pair are not atomic) are matched by exact (flavour, canonical call pair, clause) signature, printed as KNOWN-FINDING and excluded so that anything else — any deadlock, any query/traversal failure, any new pair — is a VIOLATION.", "Scheduler controls lock-acquisition order only; std RwLock's writer-preference queue is not modelled — covered by the re-entrant-read probe + real-thread tier. lock_point must precede every acquisition (32 sites).", "4.C17", "exploration"),
 "C18": S("contmap", "model-based stateful PBT against a key->allocation map model; DOT parsed line-wise",
   "Histories of container calls interleaved with edge operations on members and removed nodes, connects routed through container-obtained handles: every sequence of <=4 (thorough 5) letters of a 10-letter alphabet on 2 keys followed by all observations, and proptest histories on 1-6 keys, four flavours; insert/get/[]/contains/len/is_empty/remove/to_vec/iter agree with the model and return the inserted allocation; roots/leaves/orphans = members filtered by their own lists; to_dot / to_dot_with_attr contain one node statement per member, one edge statement per iterated edge, and exactly the callback-supplied attributes.", "Index on absent keys not exercised; same-key impostor nodes are only offered to insert.", "4.C18"),
 "C19": S("drops", "model-based stateful PBT with drop-counting payloads (released <=> no holder), every drop order enumerated on small shapes",
   "Held objects (handles, clones, containers, kept Path / node / Vec<Node> / Vec<Edge> / cycle / to_vec results) over create, connect (self-loops), try_connect, lookups, disconnect, isolate, container insert/remove/get, search, use, drop; enumerated: 1-3(4) nodes x 6 wirings x 7 result kinds x with/without container x with/without lookups x EVERY drop order; proptest histories. After every step each node value is alive iff some held object mentions it, dropped exactly once, kept results stay usable, nothing alive after the last drop.", "Neighbours of a node released while connected are excluded from peer-dereferencing calls (library's documented panic is outside the statement).", "4.C19"),
 "C20": S("c20", "PBT / small-scope enumeration of (graph, loop kind, in-loop script) with the yielded edge checked against the state observed at the yield; hook-detected self-deadlock",
   "Loop kinds: the four edge iterators and for_each/filter closures of 40 search cells + 16 ordering cells (transposed too); scripts of connect/try_connect/disconnect/isolate on the yielded edge's endpoints, the root or others, queries, nested searches, a nested disconnecting loop, container calls. Enumerated: small graphs x every root x every loop kind x every single operation at yields 0-2 and every pair of mutations; proptest scripts of up to 6 ops. No panic / self-deadlock / yield-budget overrun; every yielded edge exists at that moment with its own endpoints; in-loop mutations satisfy the C03 step relation; invariants and earlier handles fine afterwards.", "'exists at the moment it is yielded' is judged from inside the closure on the observed lists.", "4.C20"),
})

NOT_YET = "check not implemented yet in this commit (work in progress; see DESIGN.md section 4)"

def main():
    checks = []
    for pid in ALL:
        if pid not in CHECKS: continue
        c = CHECKS[pid]
        checks.append({
            "property_id": pid,
            "quick_cmd": f"./check.sh {pid} quick",
            "thorough_cmd": f"./check.sh {pid} thorough",
            "evidence_file": f"/verif/evidence/{pid}.json",
            "replay_cmd_template": f"./check.sh {pid} quick --replay {{path}}",
            "engine": c["engine"],
            "level_claimed": {"category": c.get("category", "exploration"), "text": c["text"], "design_ref": "DESIGN.md section " + c["ref"]},
            "level_note": c["note"],
            "technique": c["technique"],
        })
    hook_commits = repo_commits("verif hook")
    m = {
        "version": 1,
        "setup_cmd": "./setup.sh",
        "hooks": {
            "guard": "gdsl_verif",
            "enable": "RUSTFLAGS='--cfg gdsl_verif' (set in /verif/harness/.cargo/config.toml [build] rustflags; the harness depends on gdsl by path = /repo)",
            "baseline_off_cmd": "cd /repo && cargo test --workspace --no-fail-fast --offline",
            "source_commits": hook_commits,
            "add_only": True,
        },
        "engines": [
            {"name": "hist", "path": "/verif/harness/src/hist.rs", "serves_properties": ["C01", "C02", "C03"], "kind_free_text": "proptest TestRunner + breadth-first enumerator of observed abstract states; step relation / invariant oracles in model.rs"},
            {"name": "search", "path": "/verif/harness/src/searchrun.rs", "serves_properties": ["C04", "C05", "C06", "C07", "C08", "C09", "C10"], "kind_free_text": "graph enumerators, two-path family, proptest graph strategy; execution + validity oracles in search.rs / model.rs"},
            {"name": "container", "path": "/verif/harness/src/container.rs", "serves_properties": ["C11", "C12"], "kind_free_text": "enumerators + proptest over Graph containers (scc, serde round trip)"},
            {"name": "deser", "path": "/verif/harness/src/deser.rs", "serves_properties": ["C13"], "kind_free_text": "structural mutation with proptest + libFuzzer target harness/fuzz/fuzz_targets/deser.rs (cargo-fuzz, ASan)"},
            {"name": "progs", "path": "/verif/harness/src/progs.rs", "serves_properties": ["C14", "C16"], "kind_free_text": "generated Rust programs compiled against /repo, output compared with the generator's denotation"},
            {"name": "c15", "path": "/verif/harness/src/c15.rs", "serves_properties": ["C15"], "kind_free_text": "differential trace comparison plain vs sync"},
            {"name": "c17", "path": "/verif/harness/src/c17.rs", "serves_properties": ["C17"], "kind_free_text": "lock-point scheduler (DFS over schedules), serialisability oracle, free-running child processes"},
            {"name": "contmap", "path": "/verif/harness/src/contmap.rs", "serves_properties": ["C18"], "kind_free_text": "container map model, DOT parser"},
            {"name": "drops", "path": "/verif/harness/src/drops.rs", "serves_properties": ["C19"], "kind_free_text": "drop-counting payload registry, holder model"},
            {"name": "c20", "path": "/verif/harness/src/c20.rs", "serves_properties": ["C20"], "kind_free_text": "in-loop scripts over every loop kind"},
            {"name": "ops-fuzz", "path": "/verif/harness/fuzz/fuzz_targets/ops.rs", "serves_properties": ["C01", "C02", "C03", "C04", "C05", "C06", "C07", "C08", "C09", "C10", "C18", "C19", "C20"], "kind_free_text": "libFuzzer target decoding bytes into the structured cases and calling the same oracles (auxiliary campaign, see DESIGN.md)"},
        ],
        "checks": checks,
        "notes": "All checks: property-based testing / small-scope enumeration / fuzzing against explicit oracles (see DESIGN.md). exit 0 held, 1 VIOLATION, 2 cannot decide. Seeds from VERIF_SEED.",
        "not_applicable": [{"property_id": p, "reason": NOT_YET} for p in ALL if p not in CHECKS],
    }
    path = os.path.join(ROOT, "MANIFEST.json")
    json.dump(m, open(path, "w"), indent=1)
    try:
        import jsonschema
        jsonschema.validate(m, json.load(open("/root/.vp/MANIFEST.schema.json")))
        print("MANIFEST.json valid;", len(checks), "checks")
    except ImportError:
        print("jsonschema not available; not validated")

if __name__ == "__main__":
    main()
