#!/usr/bin/env python3
"""Prints the markdown table of /verif/seeded/*/meta.json (used for DESIGN.md section 8.2)."""
import json, glob, os
rows = []
for f in sorted(glob.glob("/verif/seeded/*/meta.json")):
    m = json.load(open(f))
    if "checks_run" not in m: continue
    notes = open(os.path.join(os.path.dirname(f), "notes.md")).read() if os.path.exists(os.path.join(os.path.dirname(f), "notes.md")) else ""
    first = next((l.strip("#* -") for l in notes.splitlines() if l.strip() and not l.startswith("#")), "")[:110]
    caught = "; ".join(f"{k}: {'caught' if v.startswith('CAUGHT') else 'silent'}" + (f" ({v.split('clause=')[1].split(' ')[0]})" if 'clause=' in v else "") for k, v in m["checks_run"].items())
    rows.append(f"| {m['id']} | {m.get('origin_short', 'sub-agent')} | {caught} |")
print("| change | origin | quick-tier verdicts |\n|---|---|---|")
print("\n".join(rows))
