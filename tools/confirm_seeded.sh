#!/bin/bash
# Confirms every candidate in /tmp/seeded-out/<id>-<n>/ in a scratch worktree of /repo:
#  (a) patch applies and the crate builds, (b) the existing suite (80 tests + doctests) passes with it,
#  (c) the demo fails with the patch and passes without. Writes /tmp/seeded-out/<dir>/confirm.json
set -u
WT=/tmp/wt/confirm
export CARGO_NET_OFFLINE=true
git -C /repo worktree remove --force $WT 2>/dev/null
git -C /repo worktree add -q --detach $WT HEAD || exit 2
cd $WT
for d in /tmp/seeded-out/*/; do
  name=$(basename $d)
  [ -f $d/patch.diff ] || continue
  [ -f $d/confirm.json ] && continue
  git checkout -q -- . ; git clean -fdq -e target
  applies=false; builds=false; suite_ok=false; demo_fails=false; demo_passes_clean=false
  if git apply $d/patch.diff 2>/dev/null; then applies=true; fi
  cp $d/demo.rs tests/seeded_demo.rs
  out=$(timeout 900 cargo test --offline --no-fail-fast 2>&1)
  echo "$out" | grep -q "Compiling\|Finished\|Running" && builds=true
  # existing: three integration binaries + doctests
  existing_fail=$(echo "$out" | awk '/Running tests\/(digraph_tests|mod|ungraph_tests).rs/{f=1} /Running tests\/seeded_demo.rs/{f=0} /Doc-tests/{f=1} f && /^test result: FAILED/{c++} END{print c+0}')
  n_ok=$(echo "$out" | grep -c "^test result: ok")
  [ "$existing_fail" = "0" ] && [ "$n_ok" -ge 4 ] && suite_ok=true
  echo "$out" | awk '/Running tests\/seeded_demo.rs/{f=1;next} /Running |Doc-tests/{f=0} f && /^test result: FAILED/{x=1} END{exit !x}' && demo_fails=true
  git checkout -q -- src Cargo.toml 2>/dev/null; git apply -R $d/patch.diff 2>/dev/null
  git checkout -q -- src
  out2=$(timeout 600 cargo test --offline --test seeded_demo 2>&1)
  echo "$out2" | grep -q "^test result: ok" && demo_passes_clean=true
  printf '{"candidate":"%s","applies":%s,"builds":%s,"existing_suite_passes_with_patch":%s,"demo_fails_with_patch":%s,"demo_passes_without_patch":%s}\n' $name $applies $builds $suite_ok $demo_fails $demo_passes_clean > $d/confirm.json
  cat $d/confirm.json
done
cd /; git -C /repo worktree remove --force $WT
