import subprocess,re
def mk(name, edits):
    for path, old, new, cnt in edits:
        s=open(path).read(); assert s.count(old)>=cnt, (name,path,s.count(old))
        open(path,'w').write(s.replace(old,new))
    d=subprocess.run(['git','diff'],capture_output=True,text=True,cwd='/repo').stdout
    open(f'/tmp/hm/{name}.diff','w').write(d)
    subprocess.run(['git','checkout','--','.'],cwd='/repo')
R='/repo/src/'
# 1. bfs iterates edges in reverse order (both directed copies, all four loops)
mk('benign-bfs-reverse-iteration',[(R+f'{m}/node/algo/bfs.rs',"for edge in node.iter_out() {","for edge in node.iter_out().collect::<Vec<_>>().into_iter().rev() {",2) for m in ['digraph','sync_digraph']]+[(R+f'{m}/node/algo/bfs.rs',"for edge in node.iter_in() {","for edge in node.iter_in().collect::<Vec<_>>().into_iter().rev() {",2) for m in ['digraph','sync_digraph']])
# 2. dfs reverse
mk('benign-dfs-reverse-iteration',[(R+f'{m}/node/algo/dfs.rs',"for edge in node.iter_out() {","for edge in node.iter_out().collect::<Vec<_>>().into_iter().rev() {",2) for m in ['digraph','sync_digraph']])
# 3. postorder/preorder reverse child order
mk('benign-order-reverse-iteration',[(R+f'{m}/node/algo/order.rs',"for edge in node.iter_out() {","for edge in node.iter_out().collect::<Vec<_>>().into_iter().rev() {",2) for m in ['digraph','sync_digraph']])
# 4. remove the LAST matching parallel edge on both sides (all directed copies)
edits=[]
for m in ['digraph','sync_digraph']:
    edits.append((R+f'{m}/node/adjacent.rs',"for (idx, edge) in self.inbound.iter().enumerate() {","for (idx, edge) in self.inbound.iter().enumerate().rev() {",1))
    edits.append((R+f'{m}/node/adjacent.rs',"for (idx, edge) in self.outbound.iter().enumerate() {","for (idx, edge) in self.outbound.iter().enumerate().rev() {",1))
mk('benign-remove-last-parallel-edge',edits)
# 5. undirected deserialisation connects (v, u)
mk('benign-undirected-deser-swapped',[(R+f'{m}/graph_serde.rs',"Node::connect(&un, &vn, e);","Node::connect(&vn, &un, e);",1) for m in ['ungraph','sync_ungraph']])
print('ok')
