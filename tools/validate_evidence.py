#!/usr/bin/env python3
import json, sys, glob, jsonschema
schema = json.load(open("/root/.vp/EVIDENCE.schema.json"))
bad = 0
for f in sorted(glob.glob("/verif/evidence/*.json")):
    try:
        jsonschema.validate(json.load(open(f)), schema); print("ok ", f)
    except Exception as e:
        bad += 1; print("BAD", f, str(e)[:300])
sys.exit(1 if bad else 0)
