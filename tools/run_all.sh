#!/bin/bash
# tools/run_all.sh <quick|thorough> [seed] [ids...] : runs the checks one after the other, prints one line per check
TIER="${1:-quick}"; SEED="${2:-1}"; shift 2 2>/dev/null
IDS="$@"; [ -z "$IDS" ] && IDS="C01 C02 C03 C04 C05 C06 C07 C08 C09 C10 C11 C12 C13 C14 C15 C16 C17 C18 C19 C20"
cd "$(dirname "$0")/.." || exit 2
bad=0
for id in $IDS; do
  t0=$(date +%s)
  out=$(VERIF_SEED=$SEED timeout 5h ./check.sh $id $TIER 2>&1); rc=$?
  t1=$(date +%s)
  echo "$id $TIER seed=$SEED rc=$rc wall=$((t1-t0))s :: $(echo "$out" | grep -E "^$id " | tail -1)"
  if [ $rc -ne 0 ]; then bad=1; echo "$out" | grep -vE "^KNOWN|^note" | grep -E "VIOLATION|clause=|signature|INCONCLUSIVE|CANNOT" | head -8; fi
done
exit $bad
